/* C20 — image lifetime: resources are released exactly once, when the last reference goes.
 *
 * Engine E2 (model checking), AddressSanitizer build.  Pool of three images
 *     A  bits a8r8g8b8 4x4, storage allocated by the library (free_me)
 *     B  bits a8 4x4, storage supplied by the client
 *     G  linear gradient, two stops
 * plus one glyph cache.  Breadth-first search over the abstract ownership state; one case = one transition
 * (state, operation): the history is replayed on a fresh pool, the operation is applied under the oracle, the
 * successor is canonicalised (model state + the library's ref_count / alpha_count / alpha_map / owned-buffer
 * flags read white-box, so that hidden bookkeeping makes a *different* state instead of being merged away),
 * and then everything the client still holds is released — maps first — with every unref checked against the
 * model, the cache is destroyed and the heap must be back at its level from before the pool was created.
 *
 * Oracle = ownership model: an image lives while (client references + owners that have it attached as alpha map)
 * > 0; unref returns TRUE and the destroy callback currently installed runs exactly once exactly when that sum
 * reaches zero, including the cascade to the alpha map of a dying owner; set_alpha_map refuses chains (owner is
 * itself a map, or map has a map of its own) and self-attachment, leaving everything unchanged; the glyph cache
 * keeps private copies (insert does not keep the source alive).  Use-after-free / double free: ASan.
 */
#include "vf.h"
#include <config.h>
#include "pixman-private.h"
#include "c17_bfs.h"
#include "c17_watchdog.h"

#ifdef VF_ASAN
size_t __sanitizer_get_current_allocated_bytes(void);
static size_t heap_now(void) { return __sanitizer_get_current_allocated_bytes(); }
#else
#include <malloc.h>
static size_t heap_now(void) { struct mallinfo2 mi = mallinfo2(); return mi.uordblks + mi.hblkhd; }
#endif

#define NI 3
enum { IMG_A, IMG_B, IMG_G };
static const char *iname[NI] = { "A", "B", "G" };
#define NONE 2   /* third choice of the alpha-map argument: NULL */

/* ---- operations ---- */
#define NV 5     /* values per property setter */
enum { OP_PROBE = 0, OP_REF = 1, OP_UNREF = OP_REF + NI, OP_ALPHA = OP_UNREF + NI, OP_XFORM = OP_ALPHA + 3 * NI, OP_FILTER = OP_XFORM + NV * NI,
       OP_CLIP = OP_FILTER + NV * NI, OP_DFN = OP_CLIP + NV * NI, OP_GINS = OP_DFN + NV * NI, OP_GREM = OP_GINS + 2, OP_USE = OP_GREM + 2, C20_NOPS = OP_USE + NI };

static const char *op_str(int op, char *buf, size_t cap)
{
    static const char *an[3] = { "A", "B", "NULL" };
    static const char *xv[NV] = { "scale2", "rot90+translate", "identity", "translate(.5,0)", "scale2(again)" }, *fv[NV] = { "conv1x1", "conv3x1/2phases", "nearest,NULL", "nearest,non-NULL pointer,0 parameters", "conv3x1/2phases(again)" },
                      *cv[NV] = { "one-rect", "three-rects", "NULL", "empty region", "twenty-rects(16-bit setter)" }, *dv[NV] = { "cbA", "cbB", "NULL", "cbB(again)", "cbA(again)" };
    if (op == OP_PROBE) snprintf(buf, cap, "release-all");
    else if (op < OP_UNREF) snprintf(buf, cap, "ref(%s)", iname[op - OP_REF]);
    else if (op < OP_ALPHA) snprintf(buf, cap, "unref(%s)", iname[op - OP_UNREF]);
    else if (op < OP_XFORM) snprintf(buf, cap, "set_alpha_map(%s,%s)", iname[(op - OP_ALPHA) / 3], an[(op - OP_ALPHA) % 3]);
    else if (op < OP_FILTER) snprintf(buf, cap, "set_transform(%s,%s)", iname[(op - OP_XFORM) / NV], xv[(op - OP_XFORM) % NV]);
    else if (op < OP_CLIP) snprintf(buf, cap, "set_filter(%s,%s)", iname[(op - OP_FILTER) / NV], fv[(op - OP_FILTER) % NV]);
    else if (op < OP_DFN) snprintf(buf, cap, "set_clip_region32(%s,%s)", iname[(op - OP_CLIP) / NV], cv[(op - OP_CLIP) % NV]);
    else if (op < OP_GINS) snprintf(buf, cap, "set_destroy_function(%s,%s)", iname[(op - OP_DFN) / NV], dv[(op - OP_DFN) % NV]);
    else if (op < OP_GREM) snprintf(buf, cap, "glyph_insert(%s)", iname[op - OP_GINS]);
    else if (op < OP_USE) snprintf(buf, cap, "glyph_remove(key%s)", iname[op - OP_GREM]);
    else snprintf(buf, cap, "draw_from(%s)", iname[op - OP_USE]);
    return buf;
}

static const char *hist_str(const uint16_t *hist, int len, int op, char *buf, size_t cap)
{
    size_t l = 0; char t[64];
    l += snprintf(buf + l, cap - l, "history:");
    for (int i = 0; i < len && l + 70 < cap; i++) l += snprintf(buf + l, cap - l, " %s;", op_str(hist[i], t, sizeof t));
    if (op >= 0) snprintf(buf + l, cap - l, " => %s", op_str(op, t, sizeof t));
    return buf;
}

/* ---- destroy-callback recorders ---- */
static int cb_count[2][NI];                 /* [variant A/B][image] */
static pixman_image_t *cb_seen_image[NI];
static int cb_wrong_arg;
typedef struct { int variant, idx; } cb_data_t;
static cb_data_t cb_data[2][NI] = { { { 0, 0 }, { 0, 1 }, { 0, 2 } }, { { 1, 0 }, { 1, 1 }, { 1, 2 } } };
static pixman_image_t *cur_images[NI];
static void destroy_cb_a(pixman_image_t *image, void *data) { cb_data_t *d = data; cb_count[0][d->idx]++; if (d->variant != 0 || image != cur_images[d->idx]) cb_wrong_arg++; }
static void destroy_cb_b(pixman_image_t *image, void *data) { cb_data_t *d = data; cb_count[1][d->idx]++; if (d->variant != 1 || image != cur_images[d->idx]) cb_wrong_arg++; }

/* ---- model ---- */
typedef struct { int alive, crefs, amap, acount, T, F, C, D; int died_attached; /* owners that were destroyed while this image was their alpha map */ } mimg_t;
typedef struct { mimg_t im[NI]; int gkey[2]; int destroyed_now[NI]; } model_t;

static int props_total(const model_t *m) { int n = 0; for (int i = 0; i < NI; i++) if (m->im[i].alive) n += m->im[i].T + m->im[i].F + m->im[i].C + (m->im[i].D != 0); return n; }

static void m_destroy(model_t *m, int i)
{
    mimg_t *x = &m->im[i];
    x->alive = 0; m->destroyed_now[i]++;
    int j = x->amap; x->amap = -1;
    /* the destroy callback variant is remembered in D until the caller has compared the counters */
    x->T = x->F = x->C = 0;
    if (j >= 0) { m->im[j].acount--; m->im[j].died_attached++; if (m->im[j].crefs + m->im[j].acount == 0) m_destroy(m, j); }
}

/* ---- the pool ---- */
typedef struct {
    pixman_image_t *img[NI];
    pixman_glyph_cache_t *cache;
    uint32_t bstore[4];                     /* B's client storage (a8 4x4: one word per row) */
    model_t m;
    int self_attached[NI];                  /* white-box note for classification only: set_alpha_map(i,i) took effect */
    int stale_refusal;                      /* white-box note: a legal attach was ignored while alpha_count was stale (known finding's exact cause) */
    int attach_ignored;                     /* white-box note: a legal attach was ignored for any reason */
    char stale_text[240];
    int max_props;
} pool_t;

static int max_props_bound = 2;
#define C20_FONT ((void *)(uintptr_t)0x5000)  /* constant font key: home slots must not depend on where the binary is loaded */
/* glyph keys: key A's home slot is the LAST slot of the (small, PIXMAN_VERIF) table, key B has the same home and so wraps to slot 0 */
static uintptr_t c20_gkey[2] = { 1, 2 };
struct c20_cache_mirror { int n_glyphs, n_tombstones, freeze_count; pixman_list_t mru; void *glyphs[PIXMAN_VERIF_GLYPH_HASH_SIZE]; };   /* layout of pixman_glyph_cache_t (pixman-glyph.c) */
static void c20_choose_keys(void)
{
    uint32_t px = 0x80808080u; int found = 0;
    pixman_image_t *g = pixman_image_create_bits(PIXMAN_a8, 1, 1, &px, 4);
    for (uintptr_t k = 1; k < 4096 && found < 2; k++) {
        pixman_glyph_cache_t *c = pixman_glyph_cache_create();
        pixman_glyph_cache_freeze(c);
        if (pixman_glyph_cache_insert(c, C20_FONT, (void *)k, 0, 0, g)) {
            struct c20_cache_mirror *m = (struct c20_cache_mirror *)c; int used = 0, last = 0;
            for (int i = 0; i < PIXMAN_VERIF_GLYPH_HASH_SIZE; i++) if (m->glyphs[i]) { used++; last = i; }
            if (m->n_glyphs != 1 || used != 1) { fprintf(stderr, "c20: the glyph cache does not have the expected layout\n"); exit(2); }
            if (last == PIXMAN_VERIF_GLYPH_HASH_SIZE - 1) c20_gkey[found++] = k;
        }
        pixman_glyph_cache_thaw(c); pixman_glyph_cache_destroy(c);
    }
    pixman_image_unref(g);
    if (found < 2) { fprintf(stderr, "c20: no glyph keys with the last slot as home found\n"); exit(2); }
}

static void pool_create(pool_t *p)
{
    memset(p, 0, sizeof *p);
    memset(cb_count, 0, sizeof cb_count); cb_wrong_arg = 0;
    p->img[IMG_A] = pixman_image_create_bits(PIXMAN_a8r8g8b8, 4, 4, NULL, 0);
    for (int i = 0; i < 4; i++) p->bstore[i] = 0x80ff4000u + (uint32_t)i;
    p->img[IMG_B] = pixman_image_create_bits(PIXMAN_a8, 4, 4, p->bstore, 4);
    pixman_point_fixed_t p1 = { 0, 0 }, p2 = { pixman_int_to_fixed(4), 0 };
    pixman_gradient_stop_t stops[2] = { { 0, { 0xffff, 0, 0, 0xffff } }, { pixman_fixed_1, { 0, 0, 0x8000, 0x8000 } } };
    p->img[IMG_G] = pixman_image_create_linear_gradient(&p1, &p2, stops, 2);
    uint32_t *ad = pixman_image_get_data(p->img[IMG_A]);
    for (int i = 0; i < 16; i++) ad[i] = 0x80402010u * (uint32_t)(i & 1) + 0x40000000u;
    for (int i = 0; i < NI; i++) {
        cur_images[i] = p->img[i];
        pixman_image_set_destroy_function(p->img[i], destroy_cb_a, &cb_data[0][i]);
        p->m.im[i].alive = 1; p->m.im[i].crefs = 1; p->m.im[i].amap = -1;
    }
    p->max_props = max_props_bound;
}

static void ensure_cache(pool_t *p) { if (!p->cache) p->cache = pixman_glyph_cache_create(); }

/* exact packing of the canonical form.  Per image 18 bits: client refs 2, alive 1, [white-box] ref_count 3, alpha_count 2, alpha_map 2
 * (0 none, 1+j), transform/filter_params/have_clip 3, [model] T F C 3, D 2.  Then 2 bits glyph keys, then 3 bits "clip owns a rectangle array". */
static uint64_t pool_canon(pool_t *p)
{
    uint64_t v = 0;
    for (int i = 0; i < NI; i++) {
        const mimg_t *x = &p->m.im[i]; uint64_t w = 0;
        if (x->alive) {
            image_common_t *c = &p->img[i]->common;
            int am = 0;
            if (c->alpha_map) { am = 3; for (int j = 0; j < NI; j++) if ((pixman_image_t *)c->alpha_map == p->img[j] && p->m.im[j].alive) am = 1 + j; if ((pixman_image_t *)c->alpha_map == p->img[i]) am = 1 + i; }
            int rc = c->ref_count; if (rc < 0 || rc > 7) rc = 7;
            int ac = c->alpha_count; if (ac < 0 || ac > 3) ac = 3;
            w = (uint64_t)x->crefs | 1u << 2 | (uint64_t)rc << 3 | (uint64_t)ac << 6 | (uint64_t)am << 8
                | (uint64_t)(c->transform != NULL) << 10 | (uint64_t)(c->filter_params != NULL) << 11 | (uint64_t)(c->have_clip_region != 0) << 12
                | (uint64_t)x->T << 13 | (uint64_t)x->F << 14 | (uint64_t)x->C << 15 | (uint64_t)x->D << 16;
        }
        v |= w << (18 * i);
        /* [white-box] the image's clip owns a heap rectangle array (multi-rectangle clip): a one-rectangle and a three-rectangle
         * clip do not have the same futures as far as heap ownership goes, so they must not be merged */
        if (x->alive && p->img[i]->common.have_clip_region && p->img[i]->common.clip_region.data && p->img[i]->common.clip_region.data->size) v |= (uint64_t)1 << (56 + i);
        /* [white-box] nor is a clip of twenty rectangles the same state as one of three: setting "the same clip again" is a different future for each (bits 62, 63: images A and B) */
        if (i < 2 && x->alive && p->img[i]->common.have_clip_region && p->img[i]->common.clip_region.data && p->img[i]->common.clip_region.data->numRects > 16) v |= (uint64_t)1 << (62 + i);
        /* [white-box] likewise a parameter block of length 0 (a pointer was given with n_params = 0) is not the same state as a filled block */
        if (x->alive && p->img[i]->common.filter_params && p->img[i]->common.n_filter_params == 0) v |= (uint64_t)1 << (59 + i);
    }
    v |= (uint64_t)p->m.gkey[0] << 54 | (uint64_t)p->m.gkey[1] << 55;
    return v;
}

static const char *canon_str(uint64_t v, char *buf, size_t cap)
{
    size_t l = 0;
    for (int i = 0; i < NI; i++) {
        uint64_t w = v >> (18 * i) & 0x3ffff;
        if (!(w >> 2 & 1)) { l += snprintf(buf + l, cap - l, "%s:destroyed ", iname[i]); continue; }
        int am = (int)(w >> 8 & 3);
        l += snprintf(buf + l, cap - l, "%s:client=%d ref_count=%d alpha_count=%d alpha_map=%s props=%c%c%c/dfn%d ", iname[i], (int)(w & 3), (int)(w >> 3 & 7), (int)(w >> 6 & 3),
                      am == 0 ? "-" : iname[am - 1], (w >> 10 & 1) ? 'T' : '-', (w >> 11 & 1) ? 'F' : '-', (w >> 12 & 1) ? 'C' : '-', (int)(w >> 16 & 3));
    }
    l += snprintf(buf + l, cap - l, "glyphs=%s%s", (v >> 54 & 1) ? "A" : "", (v >> 55 & 1) ? "B" : "");
    if (v >> 56 & 7) l += snprintf(buf + l, cap - l, " multi-rect-clip=%s%s%s", (v >> 56 & 1) ? "A" : "", (v >> 57 & 1) ? "B" : "", (v >> 58 & 1) ? "G" : "");
    if (v >> 59 & 7) l += snprintf(buf + l, cap - l, " empty-filter-block=%s%s%s", (v >> 59 & 1) ? "A" : "", (v >> 60 & 1) ? "B" : "", (v >> 61 & 1) ? "G" : "");
    if (v >> 62 & 3) snprintf(buf + l, cap - l, " clip-of-more-than-16-rects=%s%s", (v >> 62 & 1) ? "A" : "", (v >> 63 & 1) ? "B" : "");
    return buf;
}

/* compare callback counters and return value with what the model says this operation destroyed */
static void judge_destruction(pool_t *p, const int before[2][NI], const char *desc, const char *what, int check_ret, int ret, int ret_image)
{
    model_t *m = &p->m;
    for (int i = 0; i < NI; i++) {
        int da = cb_count[0][i] - before[0][i], db = cb_count[1][i] - before[1][i];
        int ea = 0, eb = 0;
        if (m->destroyed_now[i]) { if (m->im[i].D == 0) ea = 1; else if (m->im[i].D == 1) eb = 1; }
        if ((da != ea || db != eb) && !vf_failed()) {
            int self = 0; for (int j = 0; j < NI; j++) self |= p->self_attached[j];
            const char *key = self ? "c20-self-alpha-map" : p->stale_refusal ? "c20-alpha-count-stale-after-owner-destroyed" : p->attach_ignored ? "c20-alpha-map-attach-ignored"
                              : (da + db > ea + eb) ? "c20-destroyed-too-early-or-twice" : "c20-not-destroyed";
            vf_violation(key, "%s: %s: destroy callbacks of %s ran %d (cbA) + %d (cbB) times, the ownership model expects %d + %d%s%s%s", desc, what, iname[i], da, db, ea, eb,
                         m->destroyed_now[i] ? " (its last reference goes here)" : " (it is still referenced or already gone)",
                         self ? " [set_alpha_map(x, x) was accepted earlier: the image holds a reference to itself]" : "", p->attach_ignored ? p->stale_text : "");
        }
    }
    if (check_ret && !vf_failed()) {
        int exp = m->destroyed_now[ret_image] ? 1 : 0;
        if ((ret != 0) != exp) {
            int self = 0; for (int j = 0; j < NI; j++) self |= p->self_attached[j];
            vf_violation(self ? "c20-self-alpha-map" : p->stale_refusal ? "c20-alpha-count-stale-after-owner-destroyed" : p->attach_ignored ? "c20-alpha-map-attach-ignored" : "c20-unref-return",
                         "%s: %s returned %d, the ownership model expects %d%s%s", desc, what, ret, exp,
                         self ? " [set_alpha_map(x, x) was accepted earlier: the image holds a reference to itself and can never be freed]" : "", p->attach_ignored ? p->stale_text : "");
        }
    }
    if (cb_wrong_arg && !vf_failed()) vf_violation("c20-callback-arguments", "%s: %s: a destroy callback was invoked with the wrong image or data pointer", desc, what);
    for (int i = 0; i < NI; i++) if (m->destroyed_now[i]) { m->im[i].D = 0; m->destroyed_now[i] = 0; }
}

static const pixman_transform_t xf_scale2 = { { { 2 * 65536, 0, 0 }, { 0, 2 * 65536, 0 }, { 0, 0, 65536 } } };
static const pixman_transform_t xf_rot = { { { 0, -65536, 3 * 65536 }, { 65536, 0, 0 }, { 0, 0, 65536 } } };
static const pixman_transform_t xf_half = { { { 65536, 0, 32768 }, { 0, 65536, 0 }, { 0, 0, 65536 } } };
static const pixman_transform_t xf_id = { { { 65536, 0, 0 }, { 0, 65536, 0 }, { 0, 0, 65536 } } };
static const pixman_fixed_t flt1[6] = { 65536, 65536, 0, 0, 65536, 65536 };
static const pixman_fixed_t flt2[11] = { 3 * 65536, 65536, 65536, 0, 16384, 32768, 16384, 0, 32768, 32768, 65536 };

/* Apply one operation to pool and model under the oracle.  Returns 0 when the operation is not enabled. */
static int apply(pool_t *p, int op, const char *desc)
{
    model_t *m = &p->m; char what[64]; op_str(op, what, sizeof what);
    int before[2][NI]; memcpy(before, cb_count, sizeof before);
    if (op == OP_PROBE) return 1;
    if (op < OP_UNREF) {
        int i = op - OP_REF; if (m->im[i].crefs < 1 || m->im[i].crefs >= 2) return 0;
        pixman_image_t *r = pixman_image_ref(p->img[i]);
        m->im[i].crefs++;
        if (r != p->img[i]) vf_violation("c20-ref-return", "%s: pixman_image_ref returned %p for %p", desc, (void *)r, (void *)p->img[i]);
        judge_destruction(p, before, desc, what, 0, 0, 0);
        return 1;
    }
    if (op < OP_ALPHA) {
        int i = op - OP_UNREF; if (m->im[i].crefs < 1) return 0;
        m->im[i].crefs--;
        if (m->im[i].crefs + m->im[i].acount == 0) m_destroy(m, i);
        int ret = pixman_image_unref(p->img[i]);
        judge_destruction(p, before, desc, what, 1, ret, i);
        return 1;
    }
    if (op < OP_XFORM) {
        int i = (op - OP_ALPHA) / 3, j = (op - OP_ALPHA) % 3;
        /* the caller needs a reference to the owner; the map may also be one the caller has let go of but that is still alive because it is attached to this
         * very owner (re-setting the current map, e.g. to move its origin) */
        if (m->im[i].crefs < 1) return 0;
        if (j != NONE && m->im[j].crefs < 1 && !(j != i && m->im[j].alive && (pixman_image_t *)p->img[i]->common.alpha_map == p->img[j])) return 0;
        int accept;
        if (j == NONE) accept = 1;
        else if (j == i) accept = 0;                                         /* an image cannot be its own alpha map */
        else accept = !(m->im[i].acount > 0 || m->im[j].amap >= 0);           /* no chains */
        if (accept && m->im[i].amap != (j == NONE ? -1 : j)) {
            int old = m->im[i].amap;
            if (old >= 0) { m->im[old].acount--; if (m->im[old].crefs + m->im[old].acount == 0) m_destroy(m, old); }
            m->im[i].amap = j == NONE ? -1 : j;
            if (j != NONE) m->im[j].acount++;
        }
        pixman_image_set_alpha_map(p->img[i], j == NONE ? NULL : p->img[j], 1, -1);
        /* white-box notes, used only to give a failure seen later through callbacks / unref its narrow key */
        if (j == i && (pixman_image_t *)p->img[i]->common.alpha_map == p->img[i]) p->self_attached[i] = 1;
        if (j != NONE && j != i && accept && (pixman_image_t *)p->img[i]->common.alpha_map != p->img[j]) {
            /* a legal attach was ignored.  Known finding only if the owner's alpha_count is too high by exactly the number of
             * owners that were destroyed while attached to it (_pixman_image_fini() drops the reference but not the count). */
            int excess = p->img[i]->common.alpha_count - m->im[i].acount;
            p->attach_ignored = 1;
            p->stale_refusal = excess > 0 && excess == m->im[i].died_attached;
            snprintf(p->stale_text, sizeof p->stale_text, " [set_alpha_map(%s,%s) was ignored: %s.alpha_count is %d, %d live image(s) have it attached, %d owner(s) were destroyed while attached]",
                     iname[i], iname[j], iname[i], p->img[i]->common.alpha_count, m->im[i].acount, m->im[i].died_attached);
        }
        judge_destruction(p, before, desc, what, 0, 0, 0);
        return 1;
    }
    if (op < OP_GINS) {
        int grp = (op - OP_XFORM) / (NV * NI), i = (op - OP_XFORM) % (NV * NI) / NV, v = (op - OP_XFORM) % NV;
        if (m->im[i].crefs < 1) return 0;
        int *bit = grp == 0 ? &m->im[i].T : grp == 1 ? &m->im[i].F : grp == 2 ? &m->im[i].C : &m->im[i].D;
        int newv = grp == 3 ? ((v == 0 || v == 4) ? 0 : v == 2 ? 2 : 1) : (v != 2);
        int cost_old = *bit != 0, cost_new = newv != 0;
        if (props_total(m) - cost_old + cost_new > p->max_props) return 0;   /* bound: at most max_props non-default properties in the pool */
        int ret = 1;
        if (grp == 0) ret = pixman_image_set_transform(p->img[i], (v == 0 || v == 4) ? &xf_scale2 : v == 1 ? &xf_rot : v == 2 ? &xf_id : &xf_half);
        else if (grp == 1) ret = v == 2 ? pixman_image_set_filter(p->img[i], PIXMAN_FILTER_NEAREST, NULL, 0)
                                   : v == 3 ? pixman_image_set_filter(p->img[i], PIXMAN_FILTER_NEAREST, flt1, 0)      /* a pointer with a length of 0: legal, the image may keep an (empty) block */
                                   : pixman_image_set_filter(p->img[i], PIXMAN_FILTER_SEPARABLE_CONVOLUTION, v == 0 ? flt1 : flt2, v == 0 ? 6 : 11);      /* v == 1 and v == 4: the same block */
        else if (grp == 2) {
            if (v == 2) ret = pixman_image_set_clip_region32(p->img[i], NULL);
            else if (v == 4) {
                /* twenty rectangles through the 16-bit setter: more than any on-stack conversion buffer; setting it twice in a row hands the library a clip it already holds */
                pixman_box16_t b[20]; for (int q = 0; q < 20; q++) { b[q].x1 = (int16_t)(3 * q); b[q].x2 = (int16_t)(3 * q + 2); b[q].y1 = (int16_t)(q % 3); b[q].y2 = (int16_t)(4 + q % 3); }
                pixman_region16_t r16; pixman_region_init_rects(&r16, b, 20);
                ret = pixman_image_set_clip_region(p->img[i], &r16);
                pixman_region_fini(&r16);
            } else {
                pixman_region32_t r;
                if (v == 0) pixman_region32_init_rect(&r, 0, 0, 3, 3);
                else if (v == 3) pixman_region32_init(&r);
                else { pixman_box32_t b[3] = { { 0, 0, 2, 1 }, { 3, 0, 4, 1 }, { 1, 2, 4, 4 } }; pixman_region32_init_rects(&r, b, 3); }
                ret = pixman_image_set_clip_region32(p->img[i], &r);
                pixman_region32_fini(&r);
            }
        } else pixman_image_set_destroy_function(p->img[i], (v == 0 || v == 4) ? destroy_cb_a : v == 2 ? NULL : destroy_cb_b, v == 2 ? NULL : (void *)&cb_data[(v == 0 || v == 4) ? 0 : 1][i]);
        *bit = newv;
        if (!ret) vf_violation("c20-setter-failed", "%s: %s returned FALSE (no allocation failure is injected here)", desc, what);
        judge_destruction(p, before, desc, what, 0, 0, 0);
        return 1;
    }
    if (op < OP_GREM) {
        int i = op - OP_GINS; if (m->im[i].crefs < 1 || m->gkey[i]) return 0;
        ensure_cache(p);
        pixman_glyph_cache_freeze(p->cache);
        const void *g = pixman_glyph_cache_insert(p->cache, C20_FONT, (void *)c20_gkey[i], 1, 2, p->img[i]);
        pixman_glyph_cache_thaw(p->cache);
        m->gkey[i] = 1;
        if (!g) vf_violation("c20-glyph-insert-failed", "%s: glyph insert returned NULL", desc);
        judge_destruction(p, before, desc, what, 0, 0, 0);
        return 1;
    }
    if (op < OP_USE) {
        int k = op - OP_GREM; if (!m->gkey[k]) return 0;
        pixman_glyph_cache_remove(p->cache, C20_FONT, (void *)c20_gkey[k]);
        m->gkey[k] = 0;
        judge_destruction(p, before, desc, what, 0, 0, 0);
        return 1;
    }
    {
        int i = op - OP_USE; if (m->im[i].crefs < 1) return 0;
        uint32_t dbuf[16]; memset(dbuf, 0, sizeof dbuf);
        pixman_image_t *d = pixman_image_create_bits(PIXMAN_a8r8g8b8, 4, 4, dbuf, 16);
        pixman_image_composite32(PIXMAN_OP_SRC, p->img[i], NULL, d, 0, 0, 0, 0, 0, 0, 4, 4);
        pixman_image_unref(d);
        judge_destruction(p, before, desc, what, 0, 0, 0);
        return 1;
    }
}

/* Release everything the client holds (images that are attached as alpha maps first, so that a map the library did not
 * really keep is seen dying early), destroy the cache, and check: every image destroyed, callbacks exactly once. */
static void finalise(pool_t *p, const char *desc)
{
    model_t *m = &p->m; char what[80];
    for (int pass = 0; pass < 2; pass++)
        for (int i = 0; i < NI; i++) {
            if (pass == 0 && m->im[i].acount == 0) continue;      /* pass 0: images currently attached as alpha maps */
            while (m->im[i].crefs > 0 && !vf_failed()) {
                int before[2][NI]; memcpy(before, cb_count, sizeof before);
                snprintf(what, sizeof what, "final release: unref(%s)", iname[i]);
                m->im[i].crefs--;
                if (m->im[i].crefs + m->im[i].acount == 0) m_destroy(m, i);
                int ret = pixman_image_unref(p->img[i]);
                judge_destruction(p, before, desc, what, 1, ret, i);
            }
        }
    if (vf_failed()) return;
    for (int i = 0; i < NI; i++) if (m->im[i].alive) { vf_harderr("c20 model error: %s still alive after releasing all client references (%s)", iname[i], desc); return; }
    if (p->cache) { pixman_glyph_cache_destroy(p->cache); p->cache = NULL; }
}

static uint64_t init_canon(void)
{
    pool_t p; pool_create(&p);
    uint64_t v = pool_canon(&p);
    finalise(&p, "initial state");
    return v;
}

/* enabledness decided from the canonical id alone (same rules as in apply(); saves the replay for disabled operations) */
static int op_enabled(uint64_t canon, int op)
{
    int crefs[NI], T[NI], F[NI], C[NI], D[NI], total = 0;
    for (int i = 0; i < NI; i++) {
        uint64_t w = canon >> (18 * i) & 0x3ffff;
        crefs[i] = (int)(w & 3); T[i] = (int)(w >> 13 & 1); F[i] = (int)(w >> 14 & 1); C[i] = (int)(w >> 15 & 1); D[i] = (int)(w >> 16 & 3);
        if (w >> 2 & 1) total += T[i] + F[i] + C[i] + (D[i] != 0);
    }
    int gk[2] = { (int)(canon >> 54 & 1), (int)(canon >> 55 & 1) };
    if (op == OP_PROBE) return 1;
    if (op < OP_UNREF) { int i = op - OP_REF; return crefs[i] == 1; }
    if (op < OP_ALPHA) return crefs[op - OP_UNREF] >= 1;
    if (op < OP_XFORM) {
        int i = (op - OP_ALPHA) / 3, j = (op - OP_ALPHA) % 3;
        if (crefs[i] < 1) return 0;
        if (j == NONE || crefs[j] >= 1) return 1;
        return j != i && (canon >> (18 * j) >> 2 & 1) && (int)(canon >> (18 * i) >> 8 & 3) == 1 + j;
    }
    if (op < OP_GINS) {
        int grp = (op - OP_XFORM) / (NV * NI), i = (op - OP_XFORM) % (NV * NI) / NV, v = (op - OP_XFORM) % NV;
        if (crefs[i] < 1) return 0;
        int cur = grp == 0 ? T[i] : grp == 1 ? F[i] : grp == 2 ? C[i] : D[i];
        int newv = grp == 3 ? (v == 3 ? 1 : v == 4 ? 0 : v) : (v != 2);
        return total - (cur != 0) + (newv != 0) <= max_props_bound;
    }
    if (op < OP_GREM) { int i = op - OP_GINS; return crefs[i] >= 1 && !gk[i]; }
    if (op < OP_USE) return gk[op - OP_GREM];
    return crefs[op - OP_USE] >= 1;
}

static int c20_trans(bfs_t *b, const uint16_t *hist, int len, uint64_t canon, int op, uint64_t *succ)
{
    (void)b;
    if (!op_enabled(canon, op)) return BFS_DISABLED;
    char desc[900]; hist_str(hist, len, op, desc, sizeof desc);
    size_t heap0 = heap_now();
    pool_t p; pool_create(&p);
    for (int i = 0; i < len; i++) {
        int en = apply(&p, hist[i], desc);
        if (!en || vf_failed() || vf_asan_flag) {
            if (!vf_failed() && !vf_asan_flag) vf_harderr("c20 %s: history is not replayable at step %d", desc, i);
            else if (!vf_asan_flag) vf_harderr("c20 %s: replay of an already explored history failed at step %d: %s", desc, i, vf_pending_rec.text);
            return BFS_PRUNED;
        }
    }
    uint64_t here = pool_canon(&p);
    if (here != canon) {
        char a[400], bb[400];
        vf_harderr("c20 replay non-determinism: %s rebuilt [%s] but the state was discovered as [%s]", desc, canon_str(here, a, sizeof a), canon_str(canon, bb, sizeof bb));
        return BFS_PRUNED;
    }
    if (!apply(&p, op, desc)) { vf_harderr("c20 %s: op_enabled() and apply() disagree", desc); return BFS_PRUNED; }
    if (vf_failed() || vf_asan_flag) return BFS_PRUNED;
    *succ = pool_canon(&p);
    if (vf_verbose) { char a[400]; printf("   %s\n   -> [%s]\n", desc, canon_str(*succ, a, sizeof a)); }
    if (vf_want_sample() && len >= 5 && !vf_in_confirm && *succ != canon) { char a[400]; vf_sample("%s -> [%s]", desc, canon_str(*succ, a, sizeof a)); }
    finalise(&p, desc);
    if (vf_failed() || vf_asan_flag) return BFS_PRUNED;
    size_t heap1 = heap_now();
    if (heap1 != heap0) {
        int self = 0; for (int j = 0; j < NI; j++) self |= p.self_attached[j];
        vf_violation(self ? "c20-self-alpha-map" : "c20-heap-not-released", "%s, then release of every client reference and cache destroy: %lld bytes of heap are still allocated (before the pool was created: %zu, now %zu)",
                     desc, (long long)heap1 - (long long)heap0, heap0, heap1);
        return BFS_PRUNED;
    }
    return BFS_OK;
}

/* ---- a glyph cache at capacity.  The table takes FULL_N glyphs; the breadth-first search has two glyph keys only, so the state "full" is built
 * directly (one freeze, FULL_N inserts of a 1x1 a8 image under distinct keys) and every sequence of three operations over {insert under a new key
 * (refused while full), remove one glyph, insert under the key removed last, thaw + freeze} is applied from there; a refused insert returns NULL and
 * owns nothing afterwards, and after removing everything and destroying the cache the heap is back where it was. */
#ifdef PIXMAN_VERIF_GLYPH_HASH_SIZE
#define FULL_N PIXMAN_VERIF_GLYPH_HASH_SIZE       /* this check builds the library with a small table (see checks/registry.d/C20.py) */
#else
#define FULL_N 32768
#endif
static void full_cache_case(uint64_t idx, void *vctx)
{
    (void)vctx;
    int ops[3] = { (int)(idx % 4), (int)(idx / 4 % 4), (int)(idx / 16 % 4) };
    size_t heap0 = heap_now();
    uint32_t px = 0xff; pixman_image_t *g = pixman_image_create_bits(PIXMAN_a8, 1, 1, &px, 4);
    pixman_glyph_cache_t *c = pixman_glyph_cache_create();
    pixman_glyph_cache_freeze(c);
    int present_lo = 0, n_live = 0, extra = 0, removed_key = -1; char desc[300]; size_t dl = 0;
    for (int k = 0; k < FULL_N; k++) {
        if (!pixman_glyph_cache_insert(c, C20_FONT, (void *)(uintptr_t)(0x1000 + k), 0, 0, g)) { vf_violation("c20-glyph-insert-failed", "insert %d of %d into one freeze returned NULL", k + 1, FULL_N); goto out; }
        n_live++;
    }
    dl += snprintf(desc + dl, sizeof desc - dl, "cache filled with %d glyphs in one freeze", FULL_N);
    for (int s = 0; s < 3 && !vf_failed(); s++) {
        size_t h0 = heap_now(); const void *r;
        switch (ops[s]) {
        case 0:
            r = pixman_glyph_cache_insert(c, C20_FONT, (void *)(uintptr_t)(0x900000 + extra++), 0, 0, g);
            dl += snprintf(desc + dl, sizeof desc - dl, "; insert(new key)%s", r ? "" : "=NULL");
            if (n_live >= FULL_N) {
                if (r) vf_violation("c20-full-cache-accepted-insert", "%s: the table holds %d glyphs in %d slots", desc, n_live, FULL_N);
                else if (heap_now() != h0) vf_violation("c20-refused-insert-keeps-memory", "%s: the refused insert left %lld bytes allocated that nothing owns", desc, (long long)heap_now() - (long long)h0);
            } else if (!r) vf_violation("c20-glyph-insert-failed", "%s: %d of %d slots are live", desc, n_live, FULL_N); else n_live++;
            break;
        case 1:
            if (present_lo < FULL_N) { removed_key = 0x1000 + present_lo; pixman_glyph_cache_remove(c, C20_FONT, (void *)(uintptr_t)removed_key); present_lo++; n_live--; dl += snprintf(desc + dl, sizeof desc - dl, "; remove(one)"); }
            break;
        case 2:
            if (removed_key >= 0) {
                r = pixman_glyph_cache_insert(c, C20_FONT, (void *)(uintptr_t)removed_key, 0, 0, g);
                dl += snprintf(desc + dl, sizeof desc - dl, "; insert(the key removed last)%s", r ? "" : "=NULL");
                if (n_live >= FULL_N) { if (!r && heap_now() != h0) vf_violation("c20-refused-insert-keeps-memory", "%s: the refused insert left %lld bytes allocated that nothing owns", desc, (long long)heap_now() - (long long)h0); }
                else if (!r) vf_violation("c20-glyph-insert-failed", "%s: %d of %d slots are live", desc, n_live, FULL_N);
                else { n_live++; present_lo--; removed_key = -1; }
            }
            break;
        default:
            pixman_glyph_cache_thaw(c); pixman_glyph_cache_freeze(c); n_live = -1;     /* above the high-water mark: the thaw evicts; what is left is the cache's business */
            dl += snprintf(desc + dl, sizeof desc - dl, "; thaw; freeze");
            s = 3; break;
        }
    }
out:
    pixman_glyph_cache_thaw(c);
    pixman_glyph_cache_destroy(c);
    pixman_image_unref(g);
    vf_count_eval(1); vf_count_nontrivial(1); vf_count_libcalls(FULL_N + 8);
    if (!vf_failed() && !vf_asan_flag) {
        size_t heap1 = heap_now();
        if (heap1 != heap0) vf_violation("c20-heap-not-released", "%s; then thaw, cache destroy and release of the glyph image: %lld bytes of heap are still allocated", desc, (long long)heap1 - (long long)heap0);
    }
    if (!vf_in_confirm) vf_outcome(idx);
}

/* ---- one alpha map shared by MANY owners.  The breadth-first search has three images; the refusal of chains depends on a per-map count of owners, so the
 * count is driven through 255 / 256 / 257 / 511 / 512 / 513 directly: with n live images using A as their alpha map, set_alpha_map(A, B) must be refused
 * (B is released by the caller's own unref, at once), and after everything is released the heap is back where it was. */
static int many_cb_count;
static void many_destroy_cb(pixman_image_t *img, void *data) { (void)img; (void)data; many_cb_count++; }
static void many_owners_case(uint64_t idx, void *vctx)
{
    (void)vctx;
    static const int NSs[7] = { 1, 255, 256, 257, 511, 512, 513 };
    int n = NSs[idx % 7], kind = (int)(idx / 7);                   /* kind 0: bits owners, 1: solid-fill owners */
    size_t heap0 = heap_now();
    uint32_t pa = 0x80808080u, pb = 0x40404040u;
    pixman_image_t *A = pixman_image_create_bits(PIXMAN_a8r8g8b8, 1, 1, &pa, 4), *B = pixman_image_create_bits(PIXMAN_a8r8g8b8, 1, 1, &pb, 4);
    pixman_image_t **own = malloc(sizeof *own * (size_t)n);
    pixman_color_t c = { 0x1000, 0x2000, 0x3000, 0x4000 };
    for (int i = 0; i < n; i++) { own[i] = kind ? pixman_image_create_solid_fill(&c) : pixman_image_create_bits(PIXMAN_a8r8g8b8, 1, 1, NULL, 0); pixman_image_set_alpha_map(own[i], A, 0, 0); }
    many_cb_count = 0; pixman_image_set_destroy_function(B, many_destroy_cb, NULL);
    pixman_image_set_alpha_map(A, B, 0, 0);                        /* a chain: must be refused */
    int ret = pixman_image_unref(B);
    vf_count_libcalls((uint64_t)n * 2 + 6);
    if (!ret || many_cb_count != 1)
        vf_violation("c20-alpha-map-chain-accepted", "%d %s images use A as their alpha map; set_alpha_map(A, B) was not refused: the caller's unref(B) returned %d and B's destroy callback ran %d time(s)",
                     n, kind ? "solid-fill" : "bits", ret, many_cb_count);
    /* and the other way round: an image that HAS an alpha map cannot become one */
    if (!vf_failed() && n >= 1) {
        pixman_image_t *C = pixman_image_create_bits(PIXMAN_a8r8g8b8, 1, 1, &pb, 4);
        many_cb_count = 0; pixman_image_set_destroy_function(own[0], many_destroy_cb, NULL);
        pixman_image_set_alpha_map(C, own[0], 0, 0);
        pixman_image_unref(C);
    }
    for (int i = 0; i < n; i++) pixman_image_unref(own[i]);
    int reta = pixman_image_unref(A);
    if (!vf_failed() && !reta) vf_violation("c20-destroyed-too-early-or-twice", "%d owners released, then unref(A) returned FALSE: something still holds the shared alpha map", n);
    free(own);
    vf_count_eval(1); vf_count_nontrivial(1);
    if (!vf_failed() && !vf_asan_flag) { size_t heap1 = heap_now(); if (heap1 != heap0) vf_violation("c20-heap-not-released", "%d owners of one alpha map, everything released: %lld bytes of heap are still allocated", n, (long long)heap1 - (long long)heap0); }
    if (!vf_in_confirm) vf_outcome(idx);
}

/* What the self-referencing image does on first use (finding #7, second half): _pixman_image_validate() follows
 * image->common.alpha_map without end.  Run under the watchdog (tail-call loop) and a SIGSEGV handler on an alternate
 * stack (stack overflow). */
static sigjmp_buf segv_env;
static void segv_handler(int sig) { (void)sig; siglongjmp(segv_env, 1); }
static void self_alpha_use_case(uint64_t idx, void *ctx)
{
    (void)ctx;
    static char altstack[65536];
    stack_t ss = { altstack, 0, sizeof altstack }; sigaltstack(&ss, NULL);
    struct sigaction sa, old; memset(&sa, 0, sizeof sa); sa.sa_handler = segv_handler; sa.sa_flags = SA_ONSTACK | SA_NODEFER; sigemptyset(&sa.sa_mask);
    sigaction(SIGSEGV, &sa, &old);
    wd_arm();
    uint32_t sb[16], db[16]; memset(sb, 0x80, sizeof sb); memset(db, 0, sizeof db);
    pixman_image_t *s = idx == 0 ? pixman_image_create_bits(PIXMAN_a8r8g8b8, 4, 4, NULL, 0) : pixman_image_create_bits(PIXMAN_a8, 4, 4, sb, 4);
    pixman_image_t *d = pixman_image_create_bits(PIXMAN_a8r8g8b8, 4, 4, db, 16);
    pixman_image_set_alpha_map(s, s, 0, 0);
    int accepted = (pixman_image_t *)s->common.alpha_map == s;
    volatile int outcome = 0;   /* 0 returned, 1 hang, 2 stack overflow */
    if (sigsetjmp(segv_env, 1) == 0) {
        int hung = 0;
        wd_set_limit_ms(wd_long_ms);
        WD_CALL(hung, pixman_image_composite32(PIXMAN_OP_SRC, s, NULL, d, 0, 0, 0, 0, 0, 0, 4, 4));
        if (hung) outcome = 1;
    } else { wd_in = 0; outcome = 2; }
    sigaction(SIGSEGV, &old, NULL);
    vf_count_eval(1); vf_count_nontrivial(1); vf_count_transitions(2);
    if (outcome) vf_violation("c20-self-alpha-map", "set_alpha_map(%s, itself) %s; first use as a source (composite32 SRC) %s in _pixman_image_validate()", idx == 0 ? "A" : "B",
                              accepted ? "was accepted" : "appeared refused", outcome == 1 ? "never returns (endless loop following alpha_map)" : "overflows the stack (unbounded recursion following alpha_map)");
    else if (accepted) vf_violation("c20-self-alpha-map", "set_alpha_map(%s, itself) was accepted (image->common.alpha_map == image)", idx == 0 ? "A" : "B");
    /* the objects are abandoned: they cannot be released */
}

int main(int argc, char **argv)
{
    vf_init(argc, argv, "C20", "model_checking");
    c20_choose_keys();
    bfs_replay_adopt_tier();
    int th = vf_is_thorough();
    vf_rule = "E2: breadth-first search over ownership states of a pool of three images (A bits/library storage, B bits/client storage, G linear gradient) and a glyph cache; "
              "one case = one transition (state, operation): history replayed on a fresh pool (rebuilt canonical form must equal the recorded one), operation applied under the ownership model, "
              "then every client reference released (alpha maps first) with each unref judged, cache destroyed, heap level compared with the level before the pool existed. "
              "canonical state = client refs, model alpha links and property flags + white-box ref_count/alpha_count/alpha_map/owned-buffer flags. "
              "operations: release-all, ref, unref, set_alpha_map(i, A|B|NULL) incl. self, set_transform x3, set_filter x3 (two separable convolutions, reset), set_clip_region32 x3, "
              "set_destroy_function x3 (cbA, cbB, NULL), glyph insert/remove, draw_from(i); the client only names images it holds. non-trivial = transition that changes the canonical state.";
    vf_assume("ASan build: use-after-free and double free are detected by the sanitizer; heap level via __sanitizer_get_current_allocated_bytes");
    vf_assume("gradients as alpha maps (API precondition violated, return_if_fail) and allocation failure (C15) are outside the alphabet");
    vf_assume("transitions that raise a violation are not explored further (their successors would compare a diverged model)");
    wd_short_ms = 200; wd_long_ms = th ? 2000 : 500;

    max_props_bound = th ? 4 : 2;
    { const char *e = getenv("C20_MAX_PROPS"); if (e) max_props_bound = atoi(e); }
    static bfs_t b;
    bfs_init(&b, "lifetime", C20_NOPS, BFS_MAXDEPTH, th ? 3000000 : 1000000, c20_trans, NULL, init_canon());
    bfs_run(&b);
    if (!vf_replaying()) bfs_report(&b, "lifetime");
    bfs_free(&b);

    vf_space_run("self-alpha-first-use", 2, self_alpha_use_case, NULL);
    vf_space_run("glyph-cache-at-capacity", 64, full_cache_case, NULL);
    vf_space_run("one-alpha-map-many-owners", 14, many_owners_case, NULL);

    vf_bounds = th ? "3 images + 1 glyph cache; client references per image <= 2; at most 4 non-default properties (transform, filter params, clip, destroy function) in the pool at a time; search to the fixpoint"
                   : "3 images + 1 glyph cache; client references per image <= 2; at most 2 non-default properties (transform, filter params, clip, destroy function) in the pool at a time; search to the fixpoint";
    return vf_finish();
}
