/* C09, space "gradients" — gradient images and the opacity rules compute_image_info applies to them (all stops opaque, repeat != NONE,
 * and for radial gradients a < 0, i.e. one circle contains the other).  Private part of c09_opacity.c (included after run_scenario()).
 *
 * One case = (operator, role under test in {source, mask}, context images, gradient geometry, stop set, repeat, transform, request
 * rectangle, cfg).  The SAME picture is presented
 *   (a) as the gradient image itself, source/mask origin = the request's origin in gradient space;
 *   (b) as an a8r8g8b8 REPEAT_NONE bits image that is a pre-rendered copy of exactly the w x h region the request samples: the gradient
 *       (same repeat, same transform) composited with OP_SRC into a zeroed a8r8g8b8 buffer of the request size with the same origin;
 *       the composite under test then uses the copy with origin 0,0.  Both presentations deliver the identical a8r8g8b8 scanlines to the
 *       8-bit pipeline (same iterator start x, y, width: the request lies wholly inside the destination, so clipping does not change them);
 *   (c) when every pixel of the copy has alpha 255: the copy as x8r8g8b8 with junk in the x byte (the alpha-less presentation).
 * Where the gradient does not cover the request (REPEAT_NONE outside [0,1]; a radial gradient with a >= 0 outside its cone) the copy
 * carries the transparent pixels explicitly - that is the statement's "including samples outside".
 *
 * Precision (gc09_pair_policy):
 *   G1  operators of the float pipeline (needs_division) fetch the gradient in float (pixman_gradient_walker_pixel_float) but the copy as
 *       8-bit pixels (each channel rounded to nearest, <= 1/2 step away): different input values -> compared within 2 steps.
 *       Why 2 suffices: SATURATE / DISJOINT / CONJOINT are s.Fa + d.Fb with Fa, Fb clamped ratios of alphas; an unclamped ratio (1-da)/sa, da/sa, ...
 *       is <= 1 and multiplies a premultiplied colour <= that alpha, so each of the three half-step input errors (s, sa in Fa, sa in Fb) moves the
 *       result by <= 1/2 step: <= 1.5 steps before the final rounding (2 observed for DISJOINT_XOR, 1 elsewhere).  SOFT_LIGHT: |dB/ds| <= da/2,
 *       |dB/dsa| <= d + da/4: <= 1.4 steps.  Mask role: every blend B(s.m, sa.m, d, da) is homogeneous of degree 1 in the mask value m with
 *       B <= sa.da <= 1, so a half step in m is at most a half step in the result - also for COLOR_DODGE, COLOR_BURN and the HSL operators.
 *       Source role, COLOR_DODGE / COLOR_BURN (sa.sa.d/(sa - s): unbounded as s -> sa; 4 steps observed) and the four HSL operators (division by
 *       max - min of a colour, see P1): NOT compared for the (gradient, copy) pair; the two copies are still compared exactly.
 *   G2  (copy a8r8g8b8, copy x8r8g8b8): both 8-bit: exact, except SATURATE (P2 of the main space: OVER_REVERSE in 8 bits vs SATURATE in float): 1 step.
 *   Everything else - all 8-bit-pipeline operators, both roles, every destination format - bit for bit.
 */

enum { GK_LINEAR, GK_RADIAL, GK_CONICAL };
typedef struct { const char *name; int kind; double v[6]; int ox, oy; } gdef_t;
/* ox, oy: top-left of a 20x7 window of gradient space that straddles the gradient's interesting boundary; requests are relative to it */
static const gdef_t GD[] = {
    { "linear (4,1)->(16,6)",                                       GK_LINEAR,  { 4, 1, 16, 6 }, 0, 0 },
    { "linear, same on every row (6,0)->(14,0)",                    GK_LINEAR,  { 6, 0, 14, 0 }, 0, 0 },
    { "linear, constant along a row (5,2)->(5,5)",                  GK_LINEAR,  { 5, 2, 5, 5 }, 0, 0 },
    { "radial, one circle inside the other (a<0): (10,3) r1 -> (11,4) r9",           GK_RADIAL, { 10, 3, 1, 11, 4, 9 }, 0, 0 },
    { "radial, internally tangent (a==0): (16,16) r0 -> (22,24) r10",                GK_RADIAL, { 16, 16, 0, 22, 24, 10 }, 6, 13 },
    { "radial, internally tangent (a==0): (10,10) r5 -> (13,14) r10",                GK_RADIAL, { 10, 10, 5, 13, 14, 10 }, 0, 2 },
    { "radial, disjoint circles (a>0): (3,3) r2 -> (15,5) r3",                       GK_RADIAL, { 3, 3, 2, 15, 5, 3 }, 0, 0 },
    { "radial, partially overlapping circles (a>0): (6,3) r3 -> (10,4) r4.5",        GK_RADIAL, { 6, 3, 3, 10, 4, 4.5 }, 0, 0 },
    { "radial, equal circles (a>0, dr=0): (4,3) r2.5 -> (14,4) r2.5",                GK_RADIAL, { 4, 3, 2.5, 14, 4, 2.5 }, 0, 0 },
    { "conical centre (10,3.5) angle 30",                           GK_CONICAL, { 10, 3.5, 30 }, 0, 0 },
    { "radial, concentric (a<0): (10,3) r0 -> (10,3) r6",                            GK_RADIAL, { 10, 3, 0, 10, 3, 6 }, 0, 0 },
    { "radial, internally tangent, shrinking (a==0): (13,14) r10 -> (10,10) r5",     GK_RADIAL, { 13, 14, 10, 10, 10, 5 }, 0, 2 },
    { "radial, internally tangent at half pixels (a==0): (2.5,1.5) r2.5 -> (5.5,5.5) r7.5", GK_RADIAL, { 2.5, 1.5, 2.5, 5.5, 5.5, 7.5 }, -4, -2 },
    /* thorough only */
    { "radial, containing circle first (a<0): (11,4) r9 -> (10,3) r1",               GK_RADIAL, { 11, 4, 9, 10, 3, 1 }, 0, 0 },
    { "conical centre (0,0) angle 0",                               GK_CONICAL, { 0, 0, 0 }, -10, -3 },
    { "linear, period shorter than a pixel (9.25,3)->(9.75,3.5)",   GK_LINEAR,  { 9.25, 3, 9.75, 3.5 }, 0, 0 },
};
#define NGD_Q 13
#define NGD_T ((int)(sizeof GD / sizeof GD[0]))

typedef struct { const char *name; int n; struct { double x; uint8_t a, r, g, b; } s[4]; } gstops_t;
static const gstops_t GS[] = {
    { "3 opaque stops (0, .4, 1)",            3, { { 0, 0xff, 0xe0, 0x20, 0x10 }, { .4, 0xff, 0x10, 0xd0, 0x40 }, { 1, 0xff, 0x20, 0x30, 0xf0 } } },
    { "3 stops, middle one alpha 0x80",       3, { { 0, 0xff, 0xe0, 0x20, 0x10 }, { .4, 0x80, 0x10, 0xd0, 0x40 }, { 1, 0xff, 0x20, 0x30, 0xf0 } } },
    /* thorough only */
    { "2 opaque stops (.25, .75)",            2, { { .25, 0xff, 0xff, 0xff, 0x00 }, { .75, 0xff, 0x00, 0x40, 0x80 } } },
    { "3 stops, last one alpha 0",            3, { { 0, 0xff, 0xe0, 0x20, 0x10 }, { .5, 0xff, 0x10, 0xd0, 0x40 }, { 1, 0x00, 0x20, 0x30, 0xf0 } } },
};
#define NGS_Q 2
#define NGS_T 4

/* transforms of the gradient, applied about the centre of the 20x7 window (so the window keeps straddling the boundary) */
typedef struct { const char *name; double m[9]; } gxf_t;
static const gxf_t GXF[] = {
    { "none (no transform set)",   { 1, 0, 0,  0, 1, 0,  0, 0, 1 } },
    { "translate(1.25,-.5)",       { 1, 0, 1.25,  0, 1, -.5,  0, 0, 1 } },
    { "scale1/2",                  { .5, 0, 0,  0, .5, 0,  0, 0, 1 } },
    /* thorough only */
    { "scale2",                    { 2, 0, 0,  0, 2, 0,  0, 0, 1 } },
    { "rot90",                     { 0, -1, 0,  1, 0, 0,  0, 0, 1 } },
    { "flipx",                     { -1, 0, 0,  0, 1, 0,  0, 0, 1 } },
    { "scale1.5+shear",            { 1.5, .25, 0,  .125, 1.5, 0,  0, 0, 1 } },
    { "projective",                { 1, 0, 0,  0, 1, 0,  .03125, 0, 1 } },
    { "translate(2,1) (integer, transform set)", { 1, 0, 2,  0, 1, 1,  0, 0, 1 } },
};
#define NGXF_Q 3
#define NGXF_T ((int)(sizeof GXF / sizeof GXF[0]))
#define GWIN_W 20
#define GWIN_H 7

/* request rectangles relative to the window (all fit into the 21x8 destination at DX,DY) */
static const rq_t GRQ[] = {
    { 0, 0, 20, 7 }, { 3, 1, 5, 5 }, { -2, 2, 19, 2 }, { 7, 3, 1, 1 },
    /* thorough only */
    { 5, 0, 8, 7 }, { 0, 6, 20, 1 }, { -6, -3, 13, 4 }, { 9, 0, 2, 7 },
};
#define NGRQ_Q 4
#define NGRQ_T ((int)(sizeof GRQ / sizeof GRQ[0]))
#define NGCTX_Q 4
#define NGCTX_T 6

typedef struct { int op, role, ctx, grad, stops, rep, xf, rq, cfg; } gscen_t;

static void gdescribe(const gscen_t *s, char *buf, size_t cap)
{
    char cn[64];
    snprintf(buf, cap, "op=%s role=%s ctx=%d gradient=[%s] stops=[%s] repeat=%s transform=%s request=(window origin %d,%d + %d,%d, %dx%d at dest %d,%d) PIXMAN_DISABLE=[%s]",
             rc_op_name(s->op), s->role == 2 ? "component-alpha mask" : ROLEN[s->role], s->ctx, GD[s->grad].name, GS[s->stops].name, REPN[s->rep], GXF[s->xf].name,
             GD[s->grad].ox, GD[s->grad].oy, GRQ[s->rq].sx, GRQ[s->rq].sy, GRQ[s->rq].w, GRQ[s->rq].h, DX, DY, ph_cfg_name(s->cfg, cn, sizeof cn));
}

static pixman_image_t *mk_gradient(const gdef_t *g, const gstops_t *st)
{
    pixman_gradient_stop_t stops[4];
    for (int i = 0; i < st->n; i++) {
        stops[i].x = pixman_double_to_fixed(st->s[i].x);
        stops[i].color.alpha = (uint16_t)(st->s[i].a * 0x101); stops[i].color.red = (uint16_t)(st->s[i].r * 0x101);
        stops[i].color.green = (uint16_t)(st->s[i].g * 0x101); stops[i].color.blue = (uint16_t)(st->s[i].b * 0x101);
    }
    pixman_point_fixed_t p1, p2;
    switch (g->kind) {
    case GK_LINEAR:
        p1.x = pixman_double_to_fixed(g->v[0]); p1.y = pixman_double_to_fixed(g->v[1]); p2.x = pixman_double_to_fixed(g->v[2]); p2.y = pixman_double_to_fixed(g->v[3]);
        return pixman_image_create_linear_gradient(&p1, &p2, stops, st->n);
    case GK_RADIAL:
        p1.x = pixman_double_to_fixed(g->v[0]); p1.y = pixman_double_to_fixed(g->v[1]); p2.x = pixman_double_to_fixed(g->v[3]); p2.y = pixman_double_to_fixed(g->v[4]);
        return pixman_image_create_radial_gradient(&p1, &p2, pixman_double_to_fixed(g->v[2]), pixman_double_to_fixed(g->v[5]), stops, st->n);
    default:
        p1.x = pixman_double_to_fixed(g->v[0]); p1.y = pixman_double_to_fixed(g->v[1]);
        return pixman_image_create_conical_gradient(&p1, pixman_double_to_fixed(g->v[2]), stops, st->n);
    }
}

/* M = T(window centre in gradient space) . GXF . T(-window centre in request space) */
static void gset_xf(pixman_image_t *img, const gdef_t *g, const gxf_t *x)
{
    double cx = GWIN_W / 2.0, cy = GWIN_H / 2.0, fx = g->ox + cx, fy = g->oy + cy;
    double a[9], m[9];
    /* a = GXF . T(-c) */
    for (int i = 0; i < 3; i++) { a[i * 3] = x->m[i * 3]; a[i * 3 + 1] = x->m[i * 3 + 1]; a[i * 3 + 2] = x->m[i * 3 + 2] - x->m[i * 3] * cx - x->m[i * 3 + 1] * cy; }
    /* m = T(f) . a */
    for (int j = 0; j < 3; j++) { m[j] = a[j] + fx * a[6 + j]; m[3 + j] = a[3 + j] + fy * a[6 + j]; m[6 + j] = a[6 + j]; }
    pixman_transform_t t;
    for (int i = 0; i < 3; i++) for (int j = 0; j < 3; j++) t.matrix[i][j] = pixman_double_to_fixed(m[i * 3 + j]);
    pixman_image_set_transform(img, &t);
}

/* tolerance for comparing presentations of the gradient space: kinds 0 = gradient itself, 1 = a8r8g8b8 copy, 2 = x8r8g8b8 copy */
static int gc09_pair_policy(const gscen_t *s, int kind_a, int kind_b)
{
    if (kind_a != 0 && kind_b != 0) return s->op == PIXMAN_OP_SATURATE ? 1 : 0;                  /* G2 */
    /* G3: as a component-alpha mask the gradient's colour channels take part in the arithmetic, and the walker's value at a pixel depends by one rounding
     * tie on where in the scanline it was last reset (see the note on the context mask below): the composite's (clipped) mask scanline and the pre-rendered
     * copy's scanline need not start at the same pixel.  One step, the gradients' own contract (C13); the two COPIES are still compared exactly. */
    if (s->role == 2 && !needs_division(s->op)) return 1;
    if (!needs_division(s->op)) return 0;
    if (s->role == 0 && (rc_is_hsl(s->op) || s->op == PIXMAN_OP_COLOR_DODGE || s->op == PIXMAN_OP_COLOR_BURN)) return -1;
    return 2;                                                                                     /* G1 */
}

/* largest per-channel difference (destination channel steps) between two raw destination pixels */
static int pix_maxdiff(const ph_fmt_t *f, uint32_t a, uint32_t b)
{
    int m = 0;
    for (int c = 0; c < 4; c++) { int w; int va = (int)ph_chan_raw(f, a, c, &w), vb = (int)ph_chan_raw(f, b, c, &w); if (w && abs(va - vb) > m) m = abs(va - vb); }
    return m;
}

#define GMAXP 3
static void run_gradient_scenario(const gscen_t *s)
{
    char desc[600];
    const gdef_t *g = &GD[s->grad]; const rq_t *rq = &GRQ[s->rq];
    const int w = rq->w, h = rq->h;
    pixman_repeat_t rep = REP[s->rep];
    if (s->role == 2 && rc_is_hsl(s->op)) return;                /* HSL operators with a component-alpha mask are documented as unsupported */

    /* ---- the gradient and its pre-rendered copy */
    pixman_image_t *G = mk_gradient(g, &GS[s->stops]);
    if (!G) { gdescribe(s, desc, sizeof desc); vf_violation("c09-gradient-not-created", "%s: gradient constructor returned NULL", desc); return; }
    if ((s->rq + s->stops + s->grad) & 1) {
        /* every other gradient has a past: it was first used with another repeat mode (what the library derives from the stops at validation must be derived again) */
        static const pixman_repeat_t other[4] = { PIXMAN_REPEAT_NORMAL, PIXMAN_REPEAT_NONE, PIXMAN_REPEAT_REFLECT, PIXMAN_REPEAT_PAD };
        uint32_t one[2] = { 0, 0 }; pixman_image_t *scratch = pixman_image_create_bits(PIXMAN_a8r8g8b8, 2, 1, one, 8);
        pixman_image_set_repeat(G, other[s->rep & 3]);
        pixman_image_composite32(PIXMAN_OP_SRC, G, NULL, scratch, 0, 0, 0, 0, 0, 0, 2, 1);
        pixman_image_unref(scratch);
    }
    pixman_image_set_repeat(G, rep);
    int gx, gy;                                                  /* the request's origin in the gradient image's own coordinates */
    if (s->xf == 0) { gx = g->ox + rq->sx; gy = g->oy + rq->sy; }
    else { gset_xf(G, g, &GXF[s->xf]); gx = rq->sx; gy = rq->sy; }
    ph_set_cfg(s->cfg);
    static const uint32_t zero[GWIN_W * GWIN_H];
    cimg_t copy = mk_bits(PIXMAN_a8r8g8b8, "a8r8g8b8", w, h, zero, 0);
    pixman_image_composite32(PIXMAN_OP_SRC, G, NULL, copy.img, gx, gy, 0, 0, 0, 0, w, h);      /* cur_op < 0: not recorded by the dispatch observer */
    uint32_t cpx[GWIN_W * GWIN_H]; int n_opq = 0, n_clear = 0;
    for (int y = 0; y < h; y++) for (int x = 0; x < w; x++) {
        uint32_t p = ph_get_pixel((uint8_t *)copy.buf + (size_t)y * copy.stride, 32, x);
        cpx[y * w + x] = p; n_opq += (p >> 24) == 0xff; n_clear += (p >> 24) == 0;
    }
    int g_is_opaque;
    _pixman_image_validate(G); g_is_opaque = !!(G->common.flags & FAST_PATH_IS_OPAQUE);
    int tangent = g->kind == GK_RADIAL && G->radial.a == 0;

    static pres_t P[GMAXP]; int np = 0; int kind[GMAXP];
    memset(P, 0, sizeof P);
    { pres_t *p = &P[np]; snprintf(p->name, sizeof p->name, "gradient image"); p->im.img = G; p->present = 1; kind[np++] = 0; }
    { pres_t *p = &P[np]; snprintf(p->name, sizeof p->name, "a8r8g8b8 pre-rendered copy"); p->im = copy; p->present = 1; kind[np++] = 1; }
    if (n_opq == w * h) {
        pres_t *p = &P[np]; snprintf(p->name, sizeof p->name, "x8r8g8b8 pre-rendered copy"); p->im = mk_bits(PIXMAN_x8r8g8b8, "x8r8g8b8", w, h, cpx, 0x17); p->present = 1; kind[np++] = 2;
    }

    /* ---- context images */
    uint32_t tl33[SW * SH], tlD[DW * DH], opq33[SW * SH], mk33[SW * SH], opqD[DW * DH];
    for (int i = 0; i < SW * SH; i++) { tl33[i] = translucent(i + 3); opq33[i] = expand565(CHECK565[(i * 7 + 2) % 9]); mk33[i] = (uint32_t)((0xff00807f01c0fe40ULL >> ((i % 8) * 8)) & 0xff) * 0x01010101u; }
    for (int i = 0; i < DW * DH; i++) { tlD[i] = translucent(i); opqD[i] = expand565(CHECK565[(i * 5 + 1) % 9]); }
    /* The context mask of the source role has NO zero pixel.  The 8-bit gradient iterators skip pixels whose mask is 0, and the gradient walker's
     * value at a pixel is not quite a function of the position alone: on a period boundary of REPEAT_NORMAL/REFLECT (t integral) the wrap-around
     * interval is represented either as [last stop, first stop + 1) or as [last stop - 1, first stop) + period, depending on where the walker was
     * reset last, and the two float evaluations round a x.5 tie differently (ff7fa040 vs ff80a040; linear (6,0)->(14,0), stops .25 ffff00 / .75 004080,
     * NORMAL, scale1.5+shear: pixel 2 of row 0 depends on whether pixel 1 was fetched).  That is inside the gradients' one-step contract (C13) and no
     * opacity matter, but it means the pre-rendered copy is the same picture bit for bit only if no pixel is skipped (first version of this space
     * used the main space's mask with a zero in it and reported exactly these pixels: oracle corrected, not the library). */
    for (int i = 0; i < SW * SH; i++) if (!mk33[i]) mk33[i] = 0x10101010u;
    cimg_t csrc, cmask, cdst; memset(&csrc, 0, sizeof csrc); memset(&cmask, 0, sizeof cmask); memset(&cdst, 0, sizeof cdst);
    model_t msrc, mmask; memset(&msrc, 0, sizeof msrc); memset(&mmask, 0, sizeof mmask);
    int have_mask = 0;
    if (s->role == 0) {
        switch (s->ctx) {
        case 0: cdst = mk_bits(PIXMAN_a8r8g8b8, "a8r8g8b8", DW, DH, tlD, 0); break;
        case 1: cdst = mk_bits(PIXMAN_x8r8g8b8, "x8r8g8b8", DW, DH, opqD, 0x0d); break;
        case 2: cdst = mk_bits(PIXMAN_a8r8g8b8, "a8r8g8b8", DW, DH, tlD, 0);
                cmask = mk_bits(PIXMAN_a8, "a8", SW, SH, mk33, 0); pixman_image_set_repeat(cmask.img, PIXMAN_REPEAT_NORMAL); MODEL(mmask, SW, SH, PIXMAN_REPEAT_NORMAL, mk33); have_mask = 1; break;
        case 3: cdst = mk_bits(PIXMAN_r5g6b5, "r5g6b5", DW, DH, opqD, 0); break;
        case 4: cdst = mk_bits(PIXMAN_x8r8g8b8, "x8r8g8b8", DW, DH, opqD, 0x0d);
                cmask = mk_solid(0x80808080u); mmask.solid = 1; mmask.px[0] = 0x80808080u; have_mask = 1; break;
        default: cdst = mk_bits(PIXMAN_a8, "a8", DW, DH, tlD, 0); break;
        }
    } else {
        /* mask role (unified alpha): solid or small bits sources */
        switch (s->ctx) {
        case 0: csrc = mk_solid(0x80402010u); msrc.solid = 1; msrc.px[0] = 0x80402010u; cdst = mk_bits(PIXMAN_a8r8g8b8, "a8r8g8b8", DW, DH, tlD, 0); break;
        case 1: csrc = mk_bits(PIXMAN_x8r8g8b8, "x8r8g8b8", SW, SH, opq33, 0x21); pixman_image_set_repeat(csrc.img, PIXMAN_REPEAT_NORMAL); MODEL(msrc, SW, SH, PIXMAN_REPEAT_NORMAL, opq33);
                cdst = mk_bits(PIXMAN_x8r8g8b8, "x8r8g8b8", DW, DH, opqD, 0x0d); break;
        case 2: csrc = mk_bits(PIXMAN_a8r8g8b8, "a8r8g8b8", SW, SH, tl33, 0); pixman_image_set_repeat(csrc.img, PIXMAN_REPEAT_NORMAL); MODEL(msrc, SW, SH, PIXMAN_REPEAT_NORMAL, tl33);
                cdst = mk_bits(PIXMAN_a8r8g8b8, "a8r8g8b8", DW, DH, tlD, 0); break;
        case 3: csrc = mk_solid(0xff3366ccu); msrc.solid = 1; msrc.px[0] = 0xff3366ccu; cdst = mk_bits(PIXMAN_r5g6b5, "r5g6b5", DW, DH, opqD, 0); break;
        case 4: csrc = mk_bits(PIXMAN_x8r8g8b8, "x8r8g8b8", SW, SH, opq33, 0x21); pixman_image_set_repeat(csrc.img, PIXMAN_REPEAT_PAD); MODEL(msrc, SW, SH, PIXMAN_REPEAT_PAD, opq33);
                cdst = mk_bits(PIXMAN_a8r8g8b8, "a8r8g8b8", DW, DH, tlD, 0); break;
        default: csrc = mk_solid(0x80402010u); msrc.solid = 1; msrc.px[0] = 0x80402010u; cdst = mk_bits(PIXMAN_a8, "a8", DW, DH, tlD, 0); break;
        }
        have_mask = 1;
    }

    /* ---- run every presentation */
    size_t dsz = (size_t)cdst.stride * cdst.h; uint8_t *dst0 = malloc(dsz); memcpy(dst0, cdst.buf, dsz);
    for (int k = 0; k < np; k++) {
        pres_t *p = &P[k];
        int px = kind[k] == 0 ? gx : 0, py = kind[k] == 0 ? gy : 0;            /* origin of the role under test: gradient space | copy */
        pixman_image_t *src, *mask; int sx, sy, mx, my;
        if (s->role == 0) { src = p->im.img; sx = px; sy = py; mask = cmask.img; mx = rq->sx; my = rq->sy; }
        else { src = csrc.img; sx = rq->sx; sy = rq->sy; mask = p->im.img; mx = px; my = py; }
        if (s->role == 2) pixman_image_set_component_alpha(mask, ph_truthy((uint64_t)k + (uint64_t)s->rq));      /* role 2: the same picture as a component-alpha mask: its colour channels are coverages, opaque alpha does not make it a no-op */
        memcpy(cdst.buf, dst0, dsz);
        last.valid = 0; cur_op = s->op; cur_src = src; cur_mask = mask;
        pixman_image_composite32(s->op, src, mask, cdst.img, sx, sy, mx, my, DX, DY, w, h);
        cur_op = -1;
        p->dec_valid = last.valid; p->dec_op = last.op; p->dec_src_opq = last.src_opq; p->dec_mask_null = last.mask_null; p->dec_mask_opq = last.mask_opq; p->dec_dst_opq = last.dst_opq;
        p->dfmt = cdst.f;
        for (int y = 0; y < DH; y++) for (int x = 0; x < DW; x++) p->out[y * DW + x] = ph_get_pixel((uint8_t *)cdst.buf + (size_t)y * cdst.stride, cdst.f.bpp, x);
        for (int y = 0; y < DH; y++) {
            const uint8_t *pad = (uint8_t *)cdst.buf + (size_t)y * cdst.stride + cdst.stride - 4;
            if (pad[0] != 0x5a || pad[1] != 0x5a || pad[2] != 0x5a || pad[3] != 0x5a) {
                gdescribe(s, desc, sizeof desc);
                vf_violation("c09-gradient-row-padding-written", "%s presentation=%s: destination row padding of row %d modified", desc, p->name, y);
            }
        }
    }
    vf_count_libcalls((uint64_t)np + 1);

    /* ---- compare: copy against the gradient, x8r8g8b8 copy against the a8r8g8b8 copy */
    int compared = 0, dec_differ = 0;
    for (int k = 1; k < np && !vf_failed(); k++) {
        pres_t *q = &P[k - 1], *p = &P[k];
        int tol = gc09_pair_policy(s, kind[k - 1], kind[k]);
        if (tol < 0) { if (!vf_in_confirm) __atomic_add_fetch(&cov->g_skipped_pairs, 1, __ATOMIC_RELAXED); continue; }
        compared++;
        if (!vf_in_confirm) __atomic_add_fetch(tol ? &cov->g_tol_pairs : &cov->g_exact_pairs, 1, __ATOMIC_RELAXED);
        if (p->dec_valid != q->dec_valid || p->dec_op != q->dec_op || p->dec_src_opq != q->dec_src_opq || p->dec_mask_null != q->dec_mask_null) dec_differ = 1;
        if (tol && kind[k - 1] == 0 && !vf_in_confirm) {            /* evidence: the largest difference seen per float operator (G1 pairs) */
            int md = 0;
            for (int i = 0; i < DW * DH; i++) { int d_ = pix_maxdiff(&p->dfmt, q->out[i], p->out[i]); if (d_ > md) md = d_; }
            uint64_t old = cov->g_maxdiff[s->op];
            while ((uint64_t)md > old && !__atomic_compare_exchange_n(&cov->g_maxdiff[s->op], &old, (uint64_t)md, 0, __ATOMIC_RELAXED, __ATOMIC_RELAXED)) ;
        }
        for (int i = 0; i < DW * DH; i++) {
            if (pix_close(&p->dfmt, q->out[i], p->out[i], tol, 3)) continue;
            gdescribe(s, desc, sizeof desc);
            int ix = i % DW - DX, iy = i / DW - DY; uint32_t cp = (ix >= 0 && iy >= 0 && ix < w && iy < h) ? cpx[iy * w + ix] : 0;
            vf_violation(s->role == 0 ? "c09-gradient-source-presentations-differ" : "c09-gradient-mask-presentations-differ",
                         "%s: presentation '%s' (dispatched op=%s src_opaque=%d mask_elided=%d dst_opaque=%d) gives %08x at dest pixel (%d,%d), presentation '%s' (op=%s src_opaque=%d mask_elided=%d dst_opaque=%d) gives %08x; "
                         "allowed difference %d step(s); the picture there is %08x (8-bit rendering); gradient flagged IS_OPAQUE=%d, radial a %s 0; %d of %d request pixels opaque, %d fully transparent; destination before: %08x",
                         desc, q->name, rc_op_name(q->dec_op), q->dec_src_opq && q->dec_mask_opq, q->dec_mask_null, q->dec_dst_opq, q->out[i], i % DW, i / DW,
                         p->name, rc_op_name(p->dec_op), p->dec_src_opq && p->dec_mask_opq, p->dec_mask_null, p->dec_dst_opq, p->out[i], tol, cp, g_is_opaque,
                         g->kind != GK_RADIAL ? "n/a" : G->radial.a < 0 ? "<" : G->radial.a == 0 ? "==" : ">", n_opq, w * h, n_clear,
                         ph_get_pixel(dst0 + (size_t)(i / DW) * cdst.stride, cdst.f.bpp, i % DW));
            break;
        }
    }

    /* ---- absolute anchor: the 13 exact operators, 32-bit destinations: the copy presentation against the operator equations */
    if (!vf_failed() && rc_is_exact_op(s->op) && cdst.f.bpp == 32) {
        pres_t *q = &P[1]; int npx = 0;
        for (int y = 0; y < h && !vf_failed(); y++) for (int x = 0; x < w; x++) {
            int dx = DX + x, dy = DY + y;
            uint32_t sp, mp = 0, dp; int mode = s->role == 2 ? RC_MASK_CA : have_mask ? RC_MASK_UNIFIED : RC_MASK_NONE;
            if (s->role == 0) { sp = cpx[y * w + x]; if (have_mask) mp = model_at(&mmask, rq->sx + x, rq->sy + y); }
            else { sp = model_at(&msrc, rq->sx + x, rq->sy + y); mp = cpx[y * w + x]; }
            uint32_t raw = ph_get_pixel(dst0 + (size_t)dy * cdst.stride, 32, dx); dp = cdst.f.aw ? raw : (raw | 0xff000000u);
            uint32_t want = rc_exact_pixel(s->op, mode, sp, mp, dp), got = q->out[dy * DW + dx];
            uint32_t cmpmask = cdst.f.aw ? 0xffffffffu : 0x00ffffffu;
            npx++;
            if ((want ^ got) & cmpmask) {
                gdescribe(s, desc, sizeof desc);
                vf_violation("c09-gradient-copy-differs-from-operator-equations", "%s presentation=%s: dest pixel (%d,%d): source %08x mask %08x(mode %d) dest %08x: equations give %08x, library %08x (compared bits %08x)",
                             desc, q->name, dx, dy, sp, mp, mode, dp, want, got, cmpmask);
                break;
            }
        }
        if (!vf_in_confirm && npx) { __atomic_add_fetch(&cov->ref_pixels, (uint64_t)npx, __ATOMIC_RELAXED); __atomic_add_fetch(&cov->ref_cases, 1, __ATOMIC_RELAXED); }
    }

    /* ---- evidence */
    if (!vf_in_confirm) {
        pres_t *b = &P[1];
        int changed = 0;
        for (int i = 0; i < DW * DH && !changed; i++) if (b->out[i] != ph_get_pixel(dst0 + (size_t)(i / DW) * cdst.stride, cdst.f.bpp, i % DW)) changed = 1;
        vf_count_eval(1);
        if (dec_differ) __atomic_add_fetch(&cov->g_decisions_differ, 1, __ATOMIC_RELAXED);
        if (dec_differ && changed && compared) vf_count_nontrivial(1);
        __atomic_add_fetch(&cov->g_cases, 1, __ATOMIC_RELAXED);
        if (g_is_opaque) __atomic_add_fetch(&cov->g_flagged_opaque, 1, __ATOMIC_RELAXED);
        if (tangent) __atomic_add_fetch(&cov->g_tangent, 1, __ATOMIC_RELAXED);
        if (n_clear && n_clear != w * h) __atomic_add_fetch(&cov->g_partly_outside, 1, __ATOMIC_RELAXED);
        if (n_clear == w * h) __atomic_add_fetch(&cov->g_wholly_outside, 1, __ATOMIC_RELAXED);
        if (np == 3) __atomic_add_fetch(&cov->g_x8_presented, 1, __ATOMIC_RELAXED);
        /* opaque stops, repeating, but the request reaches transparent pixels: exactly the cases in which an IS_OPAQUE flag would be wrong */
        if (rep != PIXMAN_REPEAT_NONE && n_clear && (s->stops == 0 || s->stops == 2)) __atomic_add_fetch(&cov->g_opaque_stops_not_covering, 1, __ATOMIC_RELAXED);
        uint64_t hsh = vf_hash64(b->out, sizeof b->out, 0x9000 + (uint64_t)s->op * 3 + (uint64_t)s->role);
        vf_outcome(hsh);
        /* samples: (A) internally tangent circles, opaque stops, repeating, request partly outside the cone - the gradient must NOT be dispatched as opaque;
         * (B) one circle inside the other, opaque stops, REPEAT_PAD - it must be */
        if (vf_want_sample() && changed && s->rq == 0 && s->xf == 0 && s->ctx == 0 && s->stops == 0 && s->cfg == PH_CFG_DEFAULT &&
            ((tangent && rep != PIXMAN_REPEAT_NONE && n_clear && n_clear != w * h && (s->op == PIXMAN_OP_OVER || s->op == PIXMAN_OP_XOR)) ||
             (s->grad == 3 && rep == PIXMAN_REPEAT_PAD && dec_differ && s->op == PIXMAN_OP_OVER))) {
            gdescribe(s, desc, sizeof desc);
            char list[300]; size_t l = 0; list[0] = 0;
            for (int k = 0; k < np && l + 80 < sizeof list; k++) l += snprintf(list + l, sizeof list - l, "%s'%s'->%s%s", l ? ", " : "", P[k].name, P[k].dec_valid ? rc_op_name(P[k].dec_op) : "(empty)", P[k].dec_mask_null && s->role >= 1 ? " (mask elided)" : "");
            vf_sample("%s: gradient flagged IS_OPAQUE=%d, %d/%d request pixels opaque, %d transparent; dispatched as {%s}; all destinations equal", desc, g_is_opaque, n_opq, w * h, n_clear, list);
        }
    }

    for (int k = 0; k < np; k++) cimg_free(&P[k].im);           /* unrefs G (im.buf == NULL) and frees the copies */
    cimg_free(&csrc); cimg_free(&cmask); cimg_free(&cdst); free(dst0);
}

typedef struct { int dims[9]; const int *cfgs; } gctx_t;
static void gscen_case(uint64_t idx, void *vctx)
{
    gctx_t *c = vctx; int d[9];
    vf_decode(idx, c->dims, 9, d);
    /* digit order (fastest first): request, transform, repeat, stops, gradient, ctx, role, op, cfg */
    gscen_t s = { rc_all_ops[d[7]], d[6], d[5], d[4], d[3], d[2], d[1], d[0], c->cfgs[d[8]] };
    if (vf_verbose) { char desc[600]; gdescribe(&s, desc, sizeof desc); printf("  scenario: %s\n", desc); }
    run_gradient_scenario(&s);
}
