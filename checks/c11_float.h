#ifndef C11_FLOAT_H
#define C11_FLOAT_H
static void c11_run_float(int th) { (void)th; }
#endif
