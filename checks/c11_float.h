/* c11_float.h — fixed<->double conversions and the pixman_f_transform family over finite doubles. */
#ifndef C11_FLOAT_H
#define C11_FLOAT_H
#include "c11_common.h"

#define DBL_U 1.1102230246251565e-16L      /* 2^-53 */

static const char *fmat_str(const pixman_f_transform_t *m, char *buf, size_t cap)
{
    size_t l = 0;
    for (int i = 0; i < 3; i++) l += snprintf(buf + l, cap - l, "%s[%.17g, %.17g, %.17g]", i ? " " : "", m->m[i][0], m->m[i][1], m->m[i][2]);
    return buf;
}
static void f_from_fixed(const pixman_transform_t *t, pixman_f_transform_t *f) { for (int i = 0; i < 3; i++) for (int j = 0; j < 3; j++) f->m[i][j] = t->matrix[i][j] / 65536.0; }

/* reference value of sum a_i*b_i in long double with the error a double evaluation may have */
typedef struct { long double val, tol; } ref_t;
static ref_t ref_dot(const double *a, int sa, const double *b, int sb, int n)
{
    ref_t r = { 0, 0 }; long double mag = 0;
    for (int i = 0; i < n; i++) { long double p = (long double)a[i * sa] * (long double)b[i * sb]; r.val += p; mag += fabsl(p); }
    r.tol = 8 * DBL_U * mag;          /* <= n+1 roundings of relative 2^-53 each, with margin */
    return r;
}
static int ref_ok(ref_t r, double got) { return isfinite(got) && fabsl((long double)got - r.val) <= r.tol; }

/* ---------------------------------------------------------------- conversions */
typedef struct { int64_t k; int q; double d; int huge; } dval;     /* value (k + q/4) / 65536, or a huge/tiny special */
#define NDV_MAX 96
static dval DV[NDV_MAX]; static int NDV;
static void build_dvals(void)
{
    static const int64_t base[] = { 0, 1, -1, 0x8000, 0xffff, 0x10000, -0x10000, 0x7ffeffff, 0x7fff0000, -0x7fff0000, 0x7fff0001, -0x7fff0001, 0x7fffffff,
                                    -0x7fffffffLL, -0x80000000LL, 0x80000000LL, -0x80000001LL };
    NDV = 0;
    for (unsigned i = 0; i < sizeof base / sizeof base[0]; i++) for (int q = 0; q < 4; q++) {
        dval v = { base[i], q, ((double)base[i] + q / 4.0) / 65536.0, 0 };
        DV[NDV++] = v;
    }
    static const double sp[] = { 1e10, -1e10, 1e300, -1e300, 9.094947017729282e-13 /* 2^-40 */, -9.094947017729282e-13 };
    for (unsigned i = 0; i < sizeof sp / sizeof sp[0]; i++) { dval v = { 0, 0, sp[i], fabs(sp[i]) > 1 ? 1 : 2 }; DV[NDV++] = v; }
}
/* admissible fixed values and verdict for one double */
static int dval_oracle(const dval *v, iv_t *adm)
{
    if (v->huge == 1) { *adm = iv_empty(); return V_FALSE; }
    if (v->huge == 2) { adm->lo = adm->hi = 0; return V_TRUE; }
    adm->lo = v->q == 3 ? v->k + 1 : v->k;          /* k, k+1/4 -> k;  k+3/4 -> k+1;  k+1/2 -> either */
    adm->hi = v->q >= 2 ? v->k + 1 : v->k;
    int ver = verdict(*adm, I32_MIN_, I32_MAX_);
    /* the library documents its own, slightly narrower range [-32767, 32767]: outside it FALSE is accepted even if representable */
    if (ver != V_FALSE && (v->d < -32767.0 || v->d > 32767.0)) ver = V_EITHER;
    return ver;
}
static int thunk_fromf(void *p) { void **a = p; return pixman_transform_from_pixman_f_transform(a[0], a[1]); }

static void conv_block(uint64_t idx, void *ctx)
{
    (void)ctx;
    int pos = (int)(idx % 9), oi = (int)(idx / 9);     /* entry `pos` runs over DV, all other entries are DV[oi] */
    uint64_t n = 0, nt = 0; char fb[500], ob[400], q0[48], q1[48];
    c11_blk_begin();
    for (int vi = 0; vi < NDV; vi++) {
        pixman_f_transform_t f; pixman_transform_t out; iv_t adm[9]; int want = V_TRUE, band = 0;
        for (int e = 0; e < 9; e++) {
            const dval *v = &DV[e == pos ? vi : oi];
            f.m[e / 3][e % 3] = v->d;
            int ver = dval_oracle(v, &adm[e]);
            if (ver == V_EITHER && verdict(adm[e], I32_MIN_, I32_MAX_) != V_FALSE) band = 1;
            want = verdict_and(want, ver);
        }
        memset(&out, 0x44, sizeof out);
        void *args[2] = { &out, &f };
        int ret = c11_guard(thunk_fromf, args);
        n++; nt += want != V_TRUE || DV[vi].q != 0;
        if (ret < 0) c11_fail("c11-from-f-transform-abort", "aborts: %s; f=%s", c11_abort_msg, fmat_str(&f, fb, sizeof fb));
        else if (ret && want == V_FALSE) c11_fail("c11-from-f-transform-true-on-overflow", "pixman_transform_from_pixman_f_transform returned TRUE (%s) although an entry does not fit 16.16; f=%s",
                                                  mat_str(&out, ob, sizeof ob), fmat_str(&f, fb, sizeof fb));
        else if (!ret && want == V_TRUE) c11_fail("c11-from-f-transform-false-in-range", "returned FALSE although every entry is within [-32767, 32767]; f=%s", fmat_str(&f, fb, sizeof fb));
        else if (ret) {
            for (int e = 0; e < 9; e++) if (!iv_has(adm[e], out.matrix[e / 3][e % 3])) {
                c11_fail("c11-from-f-transform-not-rounded", "entry [%d][%d]: %.17g -> %d, correctly rounded is [%s,%s]; f=%s", e / 3, e % 3, f.m[e / 3][e % 3], out.matrix[e / 3][e % 3],
                         i128_str(adm[e].lo, q0), i128_str(adm[e].hi, q1), fmat_str(&f, fb, sizeof fb));
                break;
            }
        } else if (band && want == V_EITHER) ST_ADD(fromf_band_false, 1);
        vf_outcome(ret > 0 ? mat_hash(&out, 21) : (uint64_t)(ret + 31));
        /* and back: fixed -> double is exact */
        if (ret > 0) {
            pixman_f_transform_t back;
            pixman_f_transform_from_pixman_transform(&back, &out);
            for (int e = 0; e < 9; e++) if (back.m[e / 3][e % 3] * 65536.0 != (double)out.matrix[e / 3][e % 3]) {
                c11_fail("c11-to-f-transform-inexact", "pixman_f_transform_from_pixman_transform: entry %d of %s became %.17g", e, mat_str(&out, ob, sizeof ob), back.m[e / 3][e % 3]);
                break;
            }
            if (vi == 22 && idx % 61 == 7 && c11_want_sample(6))
                vf_sample("from_pixman_f_transform f=%s -> TRUE %s (each entry correctly rounded), and back exactly", fmat_str(&f, fb, sizeof fb), mat_str(&out, ob, sizeof ob));
        }
    }
    c11_blk_end();
    vf_count_eval(n); vf_count_nontrivial(nt); vf_count_libcalls(2 * n);
}

/* fixed -> double over every alphabet value in every position */
static void tof_block(uint64_t idx, void *ctx)
{
    (void)ctx;
    pixman_transform_t t; pixman_f_transform_t f; char mb[400];
    for (int e = 0; e < 9; e++) t.matrix[e / 3][e % 3] = A21[(idx + 5 * e) % 21];
    memset(&f, 0, sizeof f);
    pixman_f_transform_from_pixman_transform(&f, &t);
    vf_count_eval(1); vf_count_nontrivial(1); vf_count_libcalls(1);
    for (int e = 0; e < 9; e++) if (f.m[e / 3][e % 3] * 65536.0 != (double)t.matrix[e / 3][e % 3] || f.m[e / 3][e % 3] != ldexp((double)t.matrix[e / 3][e % 3], -16))
        vf_violation("c11-to-f-transform-inexact", "entry %d of %s became %.17g", e, mat_str(&t, mb, sizeof mb), f.m[e / 3][e % 3]);
    vf_outcome(vf_hash64(&f, sizeof f, 23));
}

/* ---------------------------------------------------------------- f_transform family */
typedef struct { int op; pixman_f_transform_t *f, *r; double a, b; } fsrt_args;
static int thunk_fsrt(void *p)
{
    fsrt_args *x = p;
    switch (x->op) {
    case 0: return pixman_f_transform_scale(x->f, x->r, x->a, x->b);
    case 1: return pixman_f_transform_rotate(x->f, x->r, x->a, x->b);
    default: return pixman_f_transform_translate(x->f, x->r, x->a, x->b);
    }
}
static int fmat_check(const char *key, const char *what, const pixman_f_transform_t *l, const pixman_f_transform_t *r, const pixman_f_transform_t *got, const char *desc)
{
    char gb[500];
    for (int i = 0; i < 3; i++) for (int j = 0; j < 3; j++) {
        ref_t e = ref_dot(&l->m[i][0], 1, &r->m[0][j], 3, 3);
        ST_ADD(f_demanded, 1); if (e.tol == 0 || (double)e.val == e.val) ST_ADD(f_exact, 1);
        if (!ref_ok(e, got->m[i][j])) {
            c11_fail(key, "%s[%d][%d] = %.17g, exact %.20Lg (tolerance %.3Lg); result %s; %s", what, i, j, got->m[i][j], e.val, e.tol, fmat_str(got, gb, sizeof gb), desc);
            return 0;
        }
    }
    return 1;
}

typedef struct { int nm; } f_ctx;

/* block = matrix index; inner: partner matrices (multiply), vectors (point, point_3d), srt parameters, boxes */
static void ffam_block(uint64_t idx, void *ctx)
{
    const f_ctx *fc = ctx;
    uint64_t total = 1; for (int i = 0; i < 5; i++) total *= fc->nm;
    pixman_transform_t ta, tb; pixman_f_transform_t A, B, out;
    srt_matrix(idx, fc->nm, &ta); f_from_fixed(&ta, &A);
    uint64_t n = 0, nt = 0; char ab[500], bb[500], desc[1300];
    c11_blk_begin();
    /* init functions */
    {
        pixman_f_transform_t t;
        pixman_f_transform_init_identity(&t);
        for (int i = 0; i < 3; i++) for (int j = 0; j < 3; j++) if (t.m[i][j] != (i == j)) c11_fail("c11-f-init-wrong", "init_identity [%d][%d] = %g", i, j, t.m[i][j]);
        double p = A.m[0][0], q = A.m[0][2];
        pixman_f_transform_init_scale(&t, p, q);
        if (t.m[0][0] != p || t.m[1][1] != q || t.m[2][2] != 1 || t.m[0][1] || t.m[0][2] || t.m[1][0] || t.m[1][2] || t.m[2][0] || t.m[2][1]) c11_fail("c11-f-init-wrong", "init_scale(%g,%g)", p, q);
        pixman_f_transform_init_rotate(&t, p, q);
        if (t.m[0][0] != p || t.m[1][1] != p || t.m[0][1] != -q || t.m[1][0] != q || t.m[2][2] != 1 || t.m[0][2] || t.m[1][2] || t.m[2][0] || t.m[2][1]) c11_fail("c11-f-init-wrong", "init_rotate(%g,%g)", p, q);
        pixman_f_transform_init_translate(&t, p, q);
        if (t.m[0][0] != 1 || t.m[1][1] != 1 || t.m[2][2] != 1 || t.m[0][2] != p || t.m[1][2] != q || t.m[0][1] || t.m[1][0] || t.m[2][0] || t.m[2][1]) c11_fail("c11-f-init-wrong", "init_translate(%g,%g)", p, q);
        n += 4;
    }
    /* multiply (also with dst aliasing l) */
    for (uint64_t j = 0; j < total; j++) {
        srt_matrix(j, fc->nm, &tb); f_from_fixed(&tb, &B);
        snprintf(desc, sizeof desc, "pixman_f_transform_multiply l=%s r=%s", fmat_str(&A, ab, sizeof ab), fmat_str(&B, bb, sizeof bb));
        pixman_f_transform_multiply(&out, &A, &B);
        n++; nt++;
        fmat_check("c11-f-multiply-inaccurate", "product", &A, &B, &out, desc);
        pixman_f_transform_t alias = A;
        pixman_f_transform_multiply(&alias, &alias, &B);
        if (memcmp(&alias, &out, sizeof out)) c11_fail("c11-f-multiply-alias", "dst == l gives a different product; %s", desc);
        vf_outcome(vf_hash64(&out, sizeof out, 31));
    }
    /* point / point_3d over vectors from the extremes alphabet */
    for (int vi = 0; vi < 343; vi++) {
        double v[3] = { A7X[vi % 7] / 65536.0, A7X[vi / 7 % 7] / 65536.0, A7X[vi / 49] / 65536.0 };
        ref_t e[3]; for (int i = 0; i < 3; i++) e[i] = ref_dot(&A.m[i][0], 1, v, 1, 3);
        snprintf(desc, sizeof desc, "M=%s v=(%.17g, %.17g, %.17g)", fmat_str(&A, ab, sizeof ab), v[0], v[1], v[2]);
        struct pixman_f_vector fv = { { v[0], v[1], v[2] } };
        pixman_f_transform_point_3d(&A, &fv);
        n += 2; nt++;
        for (int i = 0; i < 3; i++) if (!ref_ok(e[i], fv.v[i])) { c11_fail("c11-f-point-3d-inaccurate", "component %d = %.17g, exact %.20Lg; %s", i, fv.v[i], e[i].val, desc); break; }
        struct pixman_f_vector pv = { { v[0], v[1], v[2] } };
        int ret = pixman_f_transform_point(&A, &pv);
        if (e[2].val == 0 && ret) c11_fail("c11-f-point-true-on-zero-w", "pixman_f_transform_point returned TRUE although w is exactly 0; %s", desc);
        else if (!ret && fabsl(e[2].val) > e[2].tol) c11_fail("c11-f-point-false-on-nonzero-w", "returned FALSE although w = %.20Lg; %s", e[2].val, desc);
        else if (ret && fabsl(e[2].val) > 64 * e[2].tol) {
            for (int i = 0; i < 2; i++) {
                long double q = e[i].val / e[2].val;
                long double tol = 4 * DBL_U * fabsl(q) + e[i].tol / fabsl(e[2].val) + fabsl(q) * e[2].tol / fabsl(e[2].val);
                ST_ADD(f_demanded, 1);
                if (!isfinite(pv.v[i]) || fabsl((long double)pv.v[i] - q) > tol) { c11_fail("c11-f-point-inaccurate", "coordinate %d = %.17g, exact %.20Lg (tolerance %.3Lg); %s", i, pv.v[i], q, tol, desc); break; }
            }
            if (pv.v[2] != 1) c11_fail("c11-f-point-inaccurate", "v[2] = %g after a successful f_transform_point; %s", pv.v[2], desc);
        }
        vf_outcome(vf_mix(vf_hash64(&pv, sizeof pv, 33), (uint64_t)ret));
    }
    /* scale / rotate / translate with forward/reverse NULL or not */
    for (int op = 0; op < 3; op++) for (int mode = 0; mode < 3; mode++) for (int ia = 0; ia < 21; ia++) for (int ib = 0; ib < 21; ib += (fc->nm > 3 ? 1 : 2)) {
        double a = A21[ia] / 65536.0, b = A21[ib] / 65536.0;
        pixman_f_transform_t F = A, R; transpose(&ta, &tb); f_from_fixed(&tb, &R);
        pixman_f_transform_t R0 = R;
        fsrt_args args = { op, mode != 1 ? &F : NULL, mode != 0 ? &R : NULL, a, b };
        int ret = c11_guard(thunk_fsrt, &args);
        n++; nt++;
        snprintf(desc, sizeof desc, "pixman_f_transform_%s(%s, %s, %.17g, %.17g) forward=%s reverse=%s", opname[op], mode != 1 ? "forward" : "NULL", mode != 0 ? "reverse" : "NULL", a, b,
                 fmat_str(&A, ab, sizeof ab), fmat_str(&R0, bb, sizeof bb));
        int zero = op == 0 && (a == 0 || b == 0);
        if (ret < 0) { c11_fail("c11-f-srt-abort", "aborts: %s; %s", c11_abort_msg, desc); continue; }
        if (zero) { if (ret) c11_fail("c11-f-scale-true-on-zero", "returned TRUE for a zero scale factor; %s", desc); continue; }
        if (!ret) { c11_fail("c11-f-srt-false", "returned FALSE; %s", desc); continue; }
        pixman_f_transform_t T, Ti;
        if (op == 0) { pixman_f_transform_init_scale(&T, a, b); pixman_f_transform_init_scale(&Ti, 1 / a, 1 / b); }
        else if (op == 1) { pixman_f_transform_init_rotate(&T, a, b); pixman_f_transform_init_rotate(&Ti, a, -b); }
        else { pixman_f_transform_init_translate(&T, a, b); pixman_f_transform_init_translate(&Ti, -a, -b); }
        if (mode != 1) fmat_check("c11-f-srt-inaccurate", "forward'", &T, &A, &F, desc);
        if (mode != 0) fmat_check("c11-f-srt-inaccurate", "reverse'", &R0, &Ti, &R, desc);
        vf_outcome(vf_mix(vf_hash64(&F, sizeof F, 35), vf_hash64(&R, sizeof R, 36)));
    }
    /* bounds */
    for (int bi = 0; bi < 100; bi++) {
        int xi = bi % 25, yi = bi / 25;
        pixman_box16_t in = { BX[xi % 5], BY[yi % 4], BX[xi / 5], BY[(yi + 1) % 4] }, box = in;
        int ret = pixman_f_transform_bounds(&A, &box);
        n++;
        int cx[4] = { in.x1, in.x2, in.x2, in.x1 }, cy[4] = { in.y1, in.y1, in.y2, in.y2 };
        int must_false = 0, unrep = 0, judge = 1, borderline = 0;
        long double cq[4][2], ct[4][2]; int cvalid[4] = { 0, 0, 0, 0 };
        for (int k = 0; k < 4; k++) {
            double v[3] = { cx[k], cy[k], 1 };
            ref_t e[3]; for (int i = 0; i < 3; i++) e[i] = ref_dot(&A.m[i][0], 1, v, 1, 3);
            if (e[2].val == 0 && e[2].tol == 0) { must_false = 1; continue; }
            if (fabsl(e[2].val) <= 64 * e[2].tol) { judge = 0; continue; }
            cvalid[k] = 1;
            for (int c = 0; c < 2; c++) {
                long double q = e[c].val / e[2].val;
                cq[k][c] = q;
                ct[k][c] = 4 * DBL_U * fabsl(q) + e[c].tol / fabsl(e[2].val) + fabsl(q) * e[2].tol / fabsl(e[2].val);
                /* definitely outside the int16 range: FALSE is demanded; only possibly outside (within the evaluation slack of the
                 * limit, e.g. a corner mapping exactly to -32768): either answer is accepted */
                if (floorl(q + ct[k][c]) < -32768 || ceill(q - ct[k][c]) > 32767) unrep = 1;
                else if (floorl(q - ct[k][c]) < -32768 || ceill(q + ct[k][c]) > 32767) borderline = 1;
            }
        }
        /* containment, judged with the slack of the double evaluation, when every corner fits int16 */
        if (ret && !unrep && !must_false && judge) for (int k = 0; k < 4; k++) for (int c = 0; c < 2 && cvalid[k]; c++) {
            long double q = cq[k][c], tol = ct[k][c];
            if (!((long double)(c ? box.y1 : box.x1) <= q + tol && (long double)(c ? box.y2 : box.x2) >= q - tol)) {
                snprintf(desc, sizeof desc, "pixman_f_transform_bounds(M=%s, box (%d,%d)-(%d,%d)) -> (%d,%d)-(%d,%d)", fmat_str(&A, ab, sizeof ab), in.x1, in.y1, in.x2, in.y2, box.x1, box.y1, box.x2, box.y2);
                c11_fail("c11-f-bounds-corner-outside", "corner %d (%d,%d) maps to %c = %.20Lg, outside the returned box; %s", k, cx[k], cy[k], "xy"[c], q, desc);
            }
        }
        snprintf(desc, sizeof desc, "pixman_f_transform_bounds(M=%s, box (%d,%d)-(%d,%d)) -> %d (%d,%d)-(%d,%d)", fmat_str(&A, ab, sizeof ab), in.x1, in.y1, in.x2, in.y2, ret, box.x1, box.y1, box.x2, box.y2);
        if (must_false && ret) c11_fail("c11-f-bounds-true-on-zero-w", "returned TRUE although a corner has w == 0; %s", desc);
        else if (judge && !must_false && unrep && ret)
            c11_fail("c11-f-bounds-int16-wraps", "returned TRUE although a transformed corner lies outside the int16 range of pixman_box16_t (the value was truncated to 16 bits); expected FALSE; %s", desc);
        else if (judge && !must_false && !unrep && !borderline && !ret) c11_fail("c11-f-bounds-false", "returned FALSE although all corners are finite and fit int16; %s", desc);
        nt += unrep || must_false;
        vf_outcome(vf_mix(vf_hash64(&box, sizeof box, 37), (uint64_t)ret));
    }
    if (idx % 29 == 4 && c11_want_sample(7)) vf_sample("f_transform family on M=%s: %llu calls (multiply x%llu partners, point/point_3d x343 vectors, scale/rotate/translate, bounds x100) all within the double tolerance",
                                                     fmat_str(&A, ab, sizeof ab), (unsigned long long)n, (unsigned long long)total);
    c11_blk_end();
    vf_count_eval(n); vf_count_nontrivial(nt); vf_count_libcalls(n);
}

/* f_invert over the same 3x3 alphabets as invert (entries with <= 2 significant bits: the double
 * evaluation of det is exact there, so FALSE iff det == 0 can be demanded) */
static void finv_block(uint64_t idx, void *ctx)
{
    const inv_ctx *ic = ctx;
    int e[9]; uint64_t k = idx, n = 0, nt = 0;
    for (int i = 0; i < ic->outer; i++) { e[i] = (int)(k % ic->n); k /= ic->n; }
    uint64_t inner = 1; for (int i = ic->outer; i < 9; i++) inner *= ic->n;
    pixman_transform_t m; pixman_f_transform_t f, out; char fb[500], ob[500], q0[48];
    c11_blk_begin();
    for (uint64_t q = 0; q < inner; q++) {
        uint64_t kk = q;
        for (int i = ic->outer; i < 9; i++) { e[i] = (int)(kk % ic->n); kk /= ic->n; }
        for (int i = 0; i < 9; i++) m.matrix[i / 3][i % 3] = ic->al[e[i]];
        f_from_fixed(&m, &f);
        i128 cof[3][3], det = 0;
        for (int i = 0; i < 3; i++) for (int j = 0; j < 3; j++) {
            int i1 = (i + 1) % 3, i2 = (i + 2) % 3, j1 = (j + 1) % 3, j2 = (j + 2) % 3;
            cof[i][j] = (i128)m.matrix[i1][j1] * m.matrix[i2][j2] - (i128)m.matrix[i1][j2] * m.matrix[i2][j1];
        }
        for (int j = 0; j < 3; j++) det += (i128)m.matrix[0][j] * cof[0][j];
        int ret = pixman_f_transform_invert(&out, &f);
        n++;
        if (det == 0) { nt++; if (ret) c11_fail("c11-f-invert-true-on-singular", "pixman_f_transform_invert returned TRUE for det == 0; M=%s", fmat_str(&f, fb, sizeof fb)); continue; }
        if (!ret) { c11_fail("c11-f-invert-false-on-invertible", "returned FALSE, det = %s/2^48; M=%s", i128_str(det, q0), fmat_str(&f, fb, sizeof fb)); continue; }
        for (int i = 0; i < 3; i++) for (int j = 0; j < 3; j++) {
            long double ex = (long double)cof[j][i] * 65536.0L / (long double)det;
            long double tol = 16 * DBL_U * (fabsl(ex) + 1e-30L);
            ST_ADD(f_demanded, 1);
            if (!isfinite(out.m[i][j]) || fabsl((long double)out.m[i][j] - ex) > tol) {
                c11_fail("c11-f-invert-inaccurate", "inverse[%d][%d] = %.17g, exact %.20Lg; M=%s result %s", i, j, out.m[i][j], ex, fmat_str(&f, fb, sizeof fb), fmat_str(&out, ob, sizeof ob));
                i = 3; break;
            }
        }
        vf_outcome(vf_hash64(&out, sizeof out, 39));
    }
    c11_blk_end();
    vf_count_eval(n); vf_count_nontrivial(nt); vf_count_libcalls(n);
}

static void c11_run_float(int th)
{
    build_dvals();
    vf_space_run("fixed-to-double", 21, tof_block, NULL);
    vf_space_run("double-to-fixed", (uint64_t)9 * NDV, conv_block, NULL);
    static f_ctx fc; fc.nm = th ? 4 : 3;
    uint64_t nm = 1; for (int i = 0; i < 5; i++) nm *= fc.nm;
    vf_space_run("f-transform-family", nm, ffam_block, &fc);
    static inv_ctx fi; fi.al = th ? A6 : A5; fi.n = th ? 6 : 5; fi.outer = 4; fi.mode = 0;
    uint64_t nb = 1; for (int i = 0; i < 4; i++) nb *= fi.n;
    vf_space_run("f-invert", nb, finv_block, &fi);
}

#endif
