/* C17 — glyph cache is a faithful map under any history; glyph drawing is per-glyph.
 *
 * Cache half (engine E2, model checking): pixman-glyph.c is #included twice under the PIXMAN_VERIF size hook
 * (small: 4 slots / HIGH 2 / LOW 1 / 5 keys; medium: 8 slots / HIGH 4 / LOW 2 / 6 keys), every identifier renamed per
 * configuration, so the harness reads glyphs[], n_glyphs, n_tombstones, freeze_count and the MRU list directly.
 * Breadth-first search to the fixpoint over canonical cache states; see c17_bfs.h and c17_cache_body.h.
 *
 * Drawing half (engine E1): the unmodified archive member with the default table size; see c17_draw.h.
 */
#include "vf.h"
#include <config.h>
#include "pixman-private.h"
#include "c17_bfs.h"
#include "c17_watchdog.h"

#ifndef PIXMAN_VERIF
#error "C17 needs -DPIXMAN_VERIF (size hook of pixman-glyph.c)"
#endif

/* ---- small table ---- */
#define PIXMAN_VERIF_GLYPH_HASH_SIZE 4
#define PIXMAN_VERIF_GLYPH_HIGH_WATER 2
#define PIXMAN_VERIF_GLYPH_LOW_WATER 1
#define C17_PFX(n) S_##n
typedef struct S_pixman_glyph_cache_t S_pixman_glyph_cache_t;
#include "c17_rename.h"
#include "c17_autorename.h"      /* generated from the pixman-glyph.c under test: whatever else it defines at file scope */
#include "pixman-glyph.c"
#include "c17_unrename.h"
#include "c17_autounrename.h"
#if HASH_SIZE != 4 || N_GLYPHS_HIGH_WATER != 2 || N_GLYPHS_LOW_WATER != 1
#error "the PIXMAN_VERIF size hook of pixman-glyph.c did not take effect"
#endif
#define L(n) S_##n
#define N(n) s_##n
#define NK 5
#define CFG_NAME "small"
#define CFG_HOMES { 1, 1, 2, 2, 3 }
#include "c17_cache_body.h"
#undef L
#undef N
#undef NK
#undef CFG_NAME
#undef CFG_HOMES
#undef C17_PFX
#undef TOMBSTONE
#undef N_GLYPHS_HIGH_WATER
#undef N_GLYPHS_LOW_WATER
#undef HASH_SIZE
#undef HASH_MASK
#undef PIXMAN_VERIF_GLYPH_HASH_SIZE
#undef PIXMAN_VERIF_GLYPH_HIGH_WATER
#undef PIXMAN_VERIF_GLYPH_LOW_WATER

/* ---- medium table ---- */
#define PIXMAN_VERIF_GLYPH_HASH_SIZE 8
#define PIXMAN_VERIF_GLYPH_HIGH_WATER 4
#define PIXMAN_VERIF_GLYPH_LOW_WATER 2
#define C17_PFX(n) M_##n
typedef struct M_pixman_glyph_cache_t M_pixman_glyph_cache_t;
#include "c17_rename.h"
#include "c17_autorename.h"      /* generated from the pixman-glyph.c under test: whatever else it defines at file scope */
#include "pixman-glyph.c"
#include "c17_unrename.h"
#include "c17_autounrename.h"
#if HASH_SIZE != 8 || N_GLYPHS_HIGH_WATER != 4 || N_GLYPHS_LOW_WATER != 2
#error "the PIXMAN_VERIF size hook of pixman-glyph.c did not take effect"
#endif
#define L(n) M_##n
#define N(n) m_##n
#define NK 6
#define CFG_NAME "medium"
#define CFG_HOMES { 5, 5, 5, 6, 6, 7 }
#include "c17_cache_body.h"
#undef L
#undef N
#undef NK
#undef CFG_NAME
#undef CFG_HOMES
#undef C17_PFX

#include "c17_draw.h"

int main(int argc, char **argv)
{
    vf_init(argc, argv, "C17", "model_checking");
    vf_quick_is_deep();      /* the larger alphabets complete in well under a minute: the quick tier uses them too */
    bfs_replay_adopt_tier();
    int th = vf_is_thorough();
    vf_rule = "cache half (E2): breadth-first search over canonical cache states (slot contents in {NULL, TOMBSTONE, key}, MRU order, freeze count, read white-box); "
              "one case = one transition (state, operation): the state is rebuilt by replaying its history on a fresh cache (rebuilt canonical form must equal the recorded one), "
              "the operation is applied and cache vs. reference model (map + LRU list + freeze count) is compared in full; operations: probe (lookup of every key), freeze, thaw, "
              "insert(k) of an absent key while frozen, remove(k) of a present key, draw_no_mask(k)/draw_mask(k) of a present key (moves it to the MRU front); freeze count <= 2. "
              "states = distinct canonical states, transitions = enabled (state, operation) pairs executed; non-trivial = transition that changes the canonical state. "
              "drawing half (E1): odometer over api x operator x source x destination format x offsets x clip x glyph formats x glyph positions; non-trivial = destination changed.";
    vf_assume("the canonical form (slots, MRU order, freeze count) determines the cache's future behaviour: glyph images and origins are a fixed function of the key");
    vf_assume("thaw oracle uses the white-box fill n_glyphs+n_tombstones read before the call (validated against the slot census on every transition)");
    vf_assume("duplicate keys, insert while not frozen, remove of an absent key, allocation failure (C15) are outside the alphabet");
    vf_assume("drawing reference uses pixman_image_composite32 itself for the final composite (operator arithmetic is C01's subject); the ADD-accumulated mask is computed by hand and cross-checked against the composite32(ADD) route");
    vf_assume("x86-64 back ends as selected by default (C02 covers the others)");
    vf_assume("\"does not return\" = the same call is still in progress after 4 ms (quick) / 25 ms (thorough) of 1 ms timer ticks delivered to the running process (>= 10^6 probe steps on a table of <= 8 slots); each distinct (slot contents, key) is re-run alone once with 100 ms / 1000 ms before it is reported");

    wd_shared_init();
    if (th) { wd_short_ms = 25; wd_long_ms = 1000; } else { wd_short_ms = 4; wd_long_ms = 100; }
    { const char *e = getenv("C17_WD_SHORT_MS"); if (e) wd_short_ms = atoi(e); e = getenv("C17_WD_LONG_MS"); if (e) wd_long_ms = atoi(e); }

    s_run_cache_space(BFS_MAXDEPTH, 200000);
    m_run_cache_space(th ? BFS_MAXDEPTH : 10, 4000000);

    printf("watchdog: short %d ms, long %d ms, long confirmations run: %llu\n", wd_short_ms, wd_long_ms, (unsigned long long)wd_confirmed[WD_NCONF]);

    /* drawing half */
    for (int n = 0; n <= 3; n++) {
        d_ctx c; c.nglyph = n; c.ndfmt = th ? 3 : 2; c.npos = (n == 3 && !th) ? 4 : D_NPOS; c.allops = 0;
        int dims[12], nd = 0;
        dims[nd++] = D_NAPI; dims[nd++] = 6; dims[nd++] = D_NSRC; dims[nd++] = c.ndfmt; dims[nd++] = D_NOFF; dims[nd++] = D_NCLIP; dims[nd++] = n ? D_NCOMBO : 1;
        for (int i = 0; i < n; i++) dims[nd++] = c.npos;
        char nm[64]; snprintf(nm, sizeof nm, "draw-%dglyphs", n);
        vf_space_run(nm, vf_product(dims, nd), d_case, &c);
    }
    /* every operator: no glyph, and one glyph at each position (blank masks and off-screen text make the operator's treatment of a transparent source visible) */
    for (int n = 0; n <= 1; n++) {
        d_ctx c; c.nglyph = n; c.ndfmt = 1; c.npos = D_NPOS; c.allops = 1;
        int dims[12], nd = 0;
        dims[nd++] = D_NAPI; dims[nd++] = D_NALLOPS; dims[nd++] = D_NSRC; dims[nd++] = c.ndfmt; dims[nd++] = D_NOFF; dims[nd++] = D_NCLIP; dims[nd++] = n ? D_NCOMBO : 1;
        for (int i = 0; i < n; i++) dims[nd++] = c.npos;
        char nm[64]; snprintf(nm, sizeof nm, "draw-all-operators-%dglyphs", n);
        vf_space_run(nm, vf_product(dims, nd), d_case, &c);
    }
    vf_space_run("draw-mask-format", 4 * 27, d_maskfmt_case, NULL);

    vf_bounds = th ? "cache: small table (4 slots, HIGH 2, LOW 1, 5 keys with home slots 1,1,2,2,3) and medium table (8 slots, HIGH 4, LOW 2, 6 keys with home slots 5,5,5,6,6,7), both to the fixpoint, freeze count <= 2; "
                     "drawing: 0-3 glyphs (3x3, 5x2, 2x4) x 5 format combinations x 6 positions each x 4 clips x 6 operators x 3 sources x 3 destination formats x 2 offset sets x {no_mask, mask a1/a8/a8r8g8b8 x 2 rectangles}"
                   : "cache: small table (4 slots, HIGH 2, LOW 1, 5 keys with home slots 1,1,2,2,3) to the fixpoint; medium table (8 slots, HIGH 4, LOW 2, 6 keys with home slots 5,5,5,6,6,7) to depth 10 (capped, reported); freeze count <= 2; "
                     "drawing: 0-3 glyphs x 5 format combinations x 6 positions each (4 for the third glyph set) x 4 clips x 6 operators x 3 sources x 2 destination formats x 2 offset sets x {no_mask, mask a1/a8/a8r8g8b8 x 2 rectangles}";
    return vf_finish();
}
