/* C04 — no access outside the pixel storage the caller described, for any request.
 * Engine E1 with a sanitizer oracle: the library AND the harness are built with AddressSanitizer, and every
 * image buffer is an exactly-sized mapping whose end (or start) abuts a PROT_NONE guard page, so an access
 * one byte outside the described storage faults even where ASan cannot see it (MMX inline asm, mmap memory).
 * A fault kills the worker; the engine attributes it to the case index, re-runs the case alone and reports it.
 */
#include "vf.h"
#include "pixhelp.h"
#include <limits.h>

/* ---------------- guard-page allocator ---------------- */
typedef struct { void *map; size_t maplen; uint8_t *lo; size_t size; } gp_t;
static long PAGE;

static gp_t gp_alloc(size_t size, int start_aligned, uint8_t fill)
{
    gp_t g; memset(&g, 0, sizeof g);
    size_t data_pages = (size + PAGE - 1) / PAGE; if (!data_pages) data_pages = 1;
    g.maplen = (data_pages + 2) * PAGE;
    g.map = mmap(NULL, g.maplen, PROT_READ | PROT_WRITE, MAP_PRIVATE | MAP_ANONYMOUS, -1, 0);
    if (g.map == MAP_FAILED) { perror("mmap"); exit(2); }
    uint8_t *base = g.map;
    mprotect(base, PAGE, PROT_NONE);
    mprotect(base + (data_pages + 1) * PAGE, PAGE, PROT_NONE);
    memset(base + PAGE, fill, data_pages * PAGE);
    g.size = size;
    g.lo = start_aligned ? base + PAGE : base + (data_pages + 1) * PAGE - size;
    return g;
}
static void gp_free(gp_t *g) { if (g->map) munmap(g->map, g->maplen); g->map = NULL; }

/* ---------------- image configurations ---------------- */
typedef struct { const char *name; pixman_format_code_t fmt; int even; } sfmt_t;
static const sfmt_t SF[] = {
    { "a8r8g8b8", PIXMAN_a8r8g8b8, 0 }, { "x8r8g8b8", PIXMAN_x8r8g8b8, 0 }, { "r5g6b5", PIXMAN_r5g6b5, 0 }, { "a8", PIXMAN_a8, 0 }, { "a4", PIXMAN_a4, 0 },
    { "a1", PIXMAN_a1, 0 }, { "r8g8b8", PIXMAN_r8g8b8, 0 }, { "yuy2", PIXMAN_yuy2, 0 }, { "yv12", PIXMAN_yv12, 1 }, { "a2r10g10b10", PIXMAN_a2r10g10b10, 0 },
    { "rgba_float", PIXMAN_rgba_float, 0 },
};
#define NSF ((int)(sizeof SF / sizeof SF[0]))
static const int SSZ[][2] = { { 1, 1 }, { 2, 1 }, { 1, 2 }, { 3, 3 }, { 17, 2 }, { 64, 1 } };
#define NSSZ 6

typedef struct { pixman_image_t *img; gp_t g; } gimg_t;

/* stride_mode: 0 minimal, 1 padded (+8 bytes), 2 negative (minimal) */
static gimg_t make_guarded(pixman_format_code_t fmt, int w, int h, int stride_mode, int start_aligned, uint64_t salt)
{
    gimg_t r; memset(&r, 0, sizeof r);
    int bpp = PIXMAN_FORMAT_BPP(fmt);
    if (fmt == PIXMAN_yv12) { w = (w + 1) & ~1; h = (h + 1) & ~1; }
    int stride = ((w * bpp + 31) / 32) * 4;
    if (fmt == PIXMAN_yv12) { stride = ((w + 7) / 8) * 8; }          /* luma plane, bytes; even number of words */
    if (stride_mode == 1) stride += 8;
    size_t size = (size_t)stride * h;
    if (fmt == PIXMAN_yv12) size = (size_t)stride * h * 3 / 2;
    r.g = gp_alloc(size, start_aligned, 0);
    uint64_t z = salt * 0x9e3779b97f4a7c15ULL + 1;
    if (PIXMAN_FORMAT_TYPE(fmt) == PIXMAN_TYPE_RGBA_FLOAT) { float *f = (float *)r.g.lo; for (size_t i = 0; i < size / 4; i++) { z = z * 6364136223846793005ULL + 1442695040888963407ULL; f[i] = (float)((z >> 40) & 0xff) / 255.0f; } }
    else for (size_t i = 0; i < size; i++) { z = z * 6364136223846793005ULL + 1442695040888963407ULL; r.g.lo[i] = (uint8_t)(z >> 56); }
    uint32_t *bits = (uint32_t *)r.g.lo; int st = stride;
    if (stride_mode == 2 && fmt != PIXMAN_yv12) { bits = (uint32_t *)(r.g.lo + (size_t)stride * (h - 1)); st = -stride; }
    r.img = pixman_image_create_bits(fmt, w, h, bits, st);
    return r;
}
static void free_guarded(gimg_t *g) { if (g->img) pixman_image_unref(g->img); gp_free(&g->g); g->img = NULL; }

/* ---------------- transforms ---------------- */
#define E 1
#define F1 0x10000
typedef struct { const char *name; int32_t m[9]; } xf_t;
static xf_t XF[80]; static int NXF;
static void add_xf(const char *n, int32_t a, int32_t b, int32_t c, int32_t d, int32_t e, int32_t f, int32_t g, int32_t h, int32_t i)
{
    xf_t *x = &XF[NXF++]; x->name = n; int32_t v[9] = { a, b, c, d, e, f, g, h, i }; memcpy(x->m, v, sizeof v);
}
static void init_xf(void)
{
    add_xf("identity", F1, 0, 0, 0, F1, 0, 0, 0, F1);
    static const int32_t tr[] = { E, -E, 0x8000, -0x8000, F1 - E, -(F1 - E), F1, -F1 };
    static char nm[40][32]; int k = 0;
    for (unsigned i = 0; i < 8; i++) { snprintf(nm[k], 32, "translate-x(%d)", tr[i]); add_xf(nm[k++], F1, 0, tr[i], 0, F1, 0, 0, 0, F1); }
    for (unsigned i = 0; i < 8; i += 2) { snprintf(nm[k], 32, "translate-xy(%d)", tr[i]); add_xf(nm[k++], F1, 0, tr[i], 0, F1, tr[i + 1], 0, 0, F1); }
    static const int32_t sc[] = { 0x5555, 0x8000, 0x20000, 0x30000, -F1, -0x20000, 32767 * F1, E, 0x7fffffff };
    for (unsigned i = 0; i < 9; i++) { snprintf(nm[k], 32, "scale(%d)", sc[i]); add_xf(nm[k++], sc[i], 0, 0, 0, sc[i], 0, 0, 0, F1); }
    for (unsigned i = 0; i < 9; i++) { snprintf(nm[k], 32, "scale-x-only(%d)", sc[i]); add_xf(nm[k++], sc[i], 0, 0x8000, 0, F1, 0, 0, 0, F1); }
    add_xf("rot90", 0, F1, 0, -F1, 0, 3 * F1, 0, 0, F1);
    add_xf("rot180", -F1, 0, 5 * F1, 0, -F1, 2 * F1, 0, 0, F1);
    add_xf("rot270", 0, -F1, 2 * F1, F1, 0, 0, 0, 0, F1);
    add_xf("rot-small", 0xfe00, 0x1000, 0, -0x1000, 0xfe00, 0, 0, 0, F1);
    add_xf("rot-small-neg", 0xfe00, -0x2000, 0x1234, 0x2000, 0xfe00, -0x4321, 0, 0, F1);
    add_xf("shear", F1, 0x8000, 0, 0x4000, F1, 0, 0, 0, F1);
    add_xf("projective-1", F1, 0, 0, 0, F1, 0, 0x100, 0, F1);
    add_xf("projective-2", F1, 0, 0, 0, F1, 0, 0x4000, -0x4000, F1);
    add_xf("projective-wneg", F1, 0, 0, 0, F1, 0, 0, 0, -F1);
    add_xf("projective-w~0", F1, 0, 0, 0, F1, 0, 0x1000, 0, E);
    add_xf("projective-w0-somewhere", F1, 0, 0, 0, F1, 0, -0x2000, 0, 0x8000);
    add_xf("near-singular", E, 0, 0, 0, E, 0, 0, 0, F1);
    add_xf("singular", 0, 0, 0, 0, 0, 0, 0, 0, F1);
    add_xf("translate+32767", F1, 0, 32767 * F1, 0, F1, 0, 0, 0, F1);
    add_xf("translate-32767", F1, 0, -32767 * F1, 0, F1, -32767 * F1, 0, 0, F1);
    add_xf("translate-max", F1, 0, 0x7fffffff, 0, F1, (int32_t)0x80000000, 0, 0, F1);
    add_xf("scale-huge-neg", (int32_t)0x80000000, 0, 0, 0, (int32_t)0x80000000, 0, 0, 0, F1);
    add_xf("w-huge", F1, 0, 0, 0, F1, 0, 0, 0, 0x7fffffff);
    add_xf("all-max", 0x7fffffff, 0x7fffffff, 0x7fffffff, 0x7fffffff, 0x7fffffff, 0x7fffffff, 0x7fffffff, 0x7fffffff, 0x7fffffff);
}

static const int CFG_LIST[] = { PH_CFG_DEFAULT, PH_CFG_SSSE3, PH_CFG_SSSE3 | PH_CFG_SSE2, PH_CFG_SSSE3 | PH_CFG_SSE2 | PH_CFG_MMX, PH_CFG_GENERAL, PH_CFG_WHOLEOPS };
#define NCFG_LIST 6

typedef struct { int thorough; } c4_ctx;

static int set_filter(pixman_image_t *img, int fil)
{
    switch (fil) {
    case 0: return pixman_image_set_filter(img, PIXMAN_FILTER_NEAREST, NULL, 0);
    case 1: return pixman_image_set_filter(img, PIXMAN_FILTER_BILINEAR, NULL, 0);
    case 2: { static const pixman_fixed_t k[11] = { 3 << 16, 3 << 16, 0x1000, 0x2000, 0x1000, 0x2000, 0x4000, 0x2000, 0x1000, 0x2000, 0x1000 }; return pixman_image_set_filter(img, PIXMAN_FILTER_CONVOLUTION, k, 11); }
    case 3: { static const pixman_fixed_t k[6] = { 2 << 16, 2 << 16, 0x4000, 0x4000, 0x4000, 0x4000 }; return pixman_image_set_filter(img, PIXMAN_FILTER_CONVOLUTION, k, 6); }
    case 4: case 5: {
        int n; pixman_fixed_t *p = fil == 4 ? pixman_filter_create_separable_convolution(&n, 0x18000, 0x10000, PIXMAN_KERNEL_LINEAR, PIXMAN_KERNEL_BOX, PIXMAN_KERNEL_BOX, PIXMAN_KERNEL_BOX, 2, 1)
                                            : pixman_filter_create_separable_convolution(&n, 0x8000, 0x30000, PIXMAN_KERNEL_CUBIC, PIXMAN_KERNEL_LANCZOS3, PIXMAN_KERNEL_GAUSSIAN, PIXMAN_KERNEL_LINEAR, 1, 3);
        if (!p) return 0;
        int r = pixman_image_set_filter(img, PIXMAN_FILTER_SEPARABLE_CONVOLUTION, p, n); free(p); return r; }
    }
    return 0;
}
static const char *FILN[] = { "nearest", "bilinear", "conv3x3", "conv2x2", "separable-a", "separable-b" };

static const struct { int sx, sy, dx, dy, w, h; } RQ[] = {
    { 0, 0, 0, 0, 16, 4 }, { -3, -2, 1, 0, 15, 4 }, { 1, 1, 0, 0, 16, 4 }, { 20000, -20000, 0, 0, 16, 3 }, { 0, 0, 5, 1, 4, 2 }, { -1, 0, 0, 0, 130, 9 },
};
#define NRQ 6

static void c4_case(uint64_t idx, void *vctx)
{
    c4_ctx *c = vctx; int th = c->thorough;
    int rep, fil, xi, place, smode, szi, fi;
    if (th) {
        static const int tsz[5] = { 0, 2, 3, 4, 5 };
        rep = (int)(idx % 4); idx /= 4; fil = (int)(idx % 6); idx /= 6; xi = (int)(idx % NXF); idx /= NXF;
        smode = (int)(idx % 3); idx /= 3; szi = tsz[idx % 5]; idx /= 5; fi = (int)(idx % NSF);
        place = (xi + rep + fil + fi) & 1;
    } else {
        /* quick: 3 sizes, stride modes {minimal, negative}, placement alternating, 4 filters */
        static const int qsz[3] = { 0, 3, 4 }, qfil[4] = { 0, 1, 2, 4 };
        rep = (int)(idx % 4); idx /= 4; fil = qfil[idx % 4]; idx /= 4; xi = (int)(idx % NXF); idx /= NXF;
        smode = (int)(idx % 2) * 2; idx /= 2; szi = qsz[idx % 3]; idx /= 3; fi = (int)(idx % NSF);
        place = (xi + rep + fi) & 1;
    }
    static const pixman_repeat_t reps[4] = { PIXMAN_REPEAT_NONE, PIXMAN_REPEAT_NORMAL, PIXMAN_REPEAT_PAD, PIXMAN_REPEAT_REFLECT };
    gimg_t im = make_guarded(SF[fi].fmt, SSZ[szi][0], SSZ[szi][1], smode, place, idx + 1);
    if (!im.img) { free_guarded(&im); vf_count_eval(1); return; }
    pixman_transform_t t; for (int i = 0; i < 9; i++) t.matrix[i / 3][i % 3] = XF[xi].m[i];
    pixman_image_set_transform(im.img, &t);
    set_filter(im.img, fil);
    pixman_image_set_repeat(im.img, reps[rep]);
    /* destinations: guard-paged too */
    static const pixman_format_code_t dfm[] = { PIXMAN_a8r8g8b8, PIXMAN_r5g6b5, PIXMAN_a8 };
    int ndf = th ? 2 : 1;
    pixman_color_t white = { 0xffff, 0x8000, 0x4000, 0xc000 };
    pixman_image_t *solid = pixman_image_create_solid_fill(&white);
    static const pixman_op_t ops[3] = { PIXMAN_OP_SRC, PIXMAN_OP_OVER, PIXMAN_OP_ADD };
    uint64_t h = 0, n = 0;
    for (int di = 0; di < ndf; di++) {
        gimg_t d = make_guarded(dfm[(di + fi) % 3], 16, 4, 0, !place, 77);
        for (int ci = 0; ci < NCFG_LIST; ci++) {
            if (!th && ci != 0 && ci != 2 && ci != 4 && ci != 5) continue;
            ph_set_cfg(CFG_LIST[ci]);
            for (int rq = 0; rq < NRQ; rq++) for (int oi = 0; oi < 3; oi++) {
                if (!th && oi == 2) continue;
                /* as source */
                pixman_image_composite32(ops[oi], im.img, NULL, d.img, RQ[rq].sx, RQ[rq].sy, 0, 0, RQ[rq].dx, RQ[rq].dy, RQ[rq].w, RQ[rq].h);
                /* as mask of a solid source */
                if (oi < 2) pixman_image_composite32(ops[oi], solid, im.img, d.img, 0, 0, RQ[rq].sx, RQ[rq].sy, RQ[rq].dx, RQ[rq].dy, RQ[rq].w, RQ[rq].h);
                n += 2;
            }
        }
        h = vf_mix(h, vf_hash64(d.g.lo, d.g.size, 3));
        free_guarded(&d);
    }
    vf_count_libcalls(n);
    pixman_image_unref(solid);
    free_guarded(&im);
    vf_count_eval(1); vf_count_nontrivial(h != 0);
    if (!vf_in_confirm) vf_outcome(h);
    if (vf_want_sample() && !vf_in_confirm && xi == 11 && fil == 1 && rep == 2)
        vf_sample("source %s %dx%d stride-mode %d %s-aligned to a guard page, transform %s, filter %s, repeat %d: %llu composites as source and as mask over 6 request geometries",
                  SF[fi].name, SSZ[szi][0], SSZ[szi][1], smode, place ? "start" : "end", XF[xi].name, FILN[fil], rep, (unsigned long long)n);
}


/* ---------------- the edges of the 16.16 coordinate range ----------------
 * Small scales with translations that put the samples within a pixel of +-32768, for EVERY filter enumerator (the footprint the
 * range check assumes depends on the filter).  One-row destinations whose row ends (or starts) at a PROT_NONE page: a scanline
 * routine that walks further than the request faults; so does a fetch that turns the wrapped coordinate into an address. */
static void limit_case(uint64_t idx, void *vctx)
{
    (void)vctx;
    static const pixman_filter_t FILT[7] = { PIXMAN_FILTER_NEAREST, PIXMAN_FILTER_FAST, PIXMAN_FILTER_BILINEAR, PIXMAN_FILTER_GOOD, PIXMAN_FILTER_BEST, PIXMAN_FILTER_CONVOLUTION, PIXMAN_FILTER_SEPARABLE_CONVOLUTION };
    static const int32_t SC[8] = { 0x100, 0x1000, 0x4000, 0x8000, F1, 0x20000, -0x100, -F1 };
    static const int32_t TL[15] = { 0x7fff0000 - 0x18000, 0x7fff0000 - 0x8000, 0x7fff0000 - 1, 0x7fff0000, 0x7fff7fff, 0x7fff8000, 0x7fff8001, 0x7ffffeff, 0x7fffffff,
                                    (int32_t)0x80000000, (int32_t)0x80000001, (int32_t)0x80007fff, (int32_t)0x80008000, (int32_t)0x80010000, (int32_t)0x80018000 };
    static const pixman_format_code_t sfm[3] = { PIXMAN_a8r8g8b8, PIXMAN_r5g6b5, PIXMAN_a8 };
    static const int ssz[2][2] = { { 16, 4 }, { 3, 2 } };
    int dims[7] = { 4, 3, 15, 8, 7, 3, 2 }, d[7];
    vf_decode(idx, dims, 7, d);
    int rep = d[0], axis = d[1], fil = d[4];
    static const pixman_repeat_t reps[4] = { PIXMAN_REPEAT_NONE, PIXMAN_REPEAT_NORMAL, PIXMAN_REPEAT_PAD, PIXMAN_REPEAT_REFLECT };
    gimg_t im = make_guarded(sfm[d[5]], ssz[d[6]][0], ssz[d[6]][1], 0, (int)(idx & 1), idx + 3);
    pixman_transform_t t; memset(&t, 0, sizeof t);
    t.matrix[0][0] = axis != 1 ? SC[d[3]] : F1; t.matrix[1][1] = axis != 0 ? SC[d[3]] : F1; t.matrix[2][2] = F1;
    t.matrix[0][2] = axis != 1 ? TL[d[2]] : 0; t.matrix[1][2] = axis != 0 ? TL[d[2]] : 0;
    pixman_image_set_transform(im.img, &t);
    if (fil < 5) pixman_image_set_filter(im.img, FILT[fil], NULL, 0); else set_filter(im.img, fil == 5 ? 2 : 4);
    pixman_image_set_repeat(im.img, reps[rep]);
    pixman_color_t white = { 0xffff, 0x8000, 0x4000, 0xc000 };
    pixman_image_t *solid = pixman_image_create_solid_fill(&white);
    static const pixman_format_code_t dfm[2] = { PIXMAN_a8r8g8b8, PIXMAN_r5g6b5 };
    static const int LC[4] = { PH_CFG_DEFAULT, PH_CFG_SSSE3 | PH_CFG_SSE2, PH_CFG_GENERAL, PH_CFG_WHOLEOPS };
    uint64_t h = 0, n = 0;
    for (int di = 0; di < 2; di++) for (int pl = 0; pl < 2; pl++) {
        gimg_t dd = make_guarded(dfm[di], 8, 1, 0, pl, 91);
        for (int ci = 0; ci < 4; ci++) {
            ph_set_cfg(LC[ci]);
            for (int oi = 0; oi < 2; oi++) {
                pixman_image_composite32(oi ? PIXMAN_OP_OVER : PIXMAN_OP_SRC, im.img, NULL, dd.img, 0, 0, 0, 0, 0, 0, 8, 1);
                pixman_image_composite32(oi ? PIXMAN_OP_OVER : PIXMAN_OP_SRC, solid, im.img, dd.img, 0, 0, 0, 0, 0, 0, 8, 1);
                n += 2;
            }
        }
        h = vf_mix(h, vf_hash64(dd.g.lo, dd.g.size, 5));
        free_guarded(&dd);
    }
    vf_count_libcalls(n);
    pixman_image_unref(solid); free_guarded(&im);
    vf_count_eval(1); vf_count_nontrivial(1);
    if (!vf_in_confirm) vf_outcome(h);
}

/* ---------------- fill entry points with boxes and clips that exceed the image ----------------
 * pixman_image_fill_boxes / fill_rectangles may fill memory directly; the boxes and the destination's clip region are caller data and
 * may both reach beyond the image.  One- and two-row destinations between PROT_NONE pages. */
static void fill_bounds_case(uint64_t idx, void *vctx)
{
    (void)vctx;
    static const pixman_format_code_t fm[4] = { PIXMAN_a8r8g8b8, PIXMAN_r5g6b5, PIXMAN_a8, PIXMAN_a1 };
    static const pixman_op_t ops[4] = { PIXMAN_OP_SRC, PIXMAN_OP_CLEAR, PIXMAN_OP_OVER, PIXMAN_OP_ADD };
    int dims[7] = { 2, 2, 4, 5, 5, 4, 2 }, d[7];
    vf_decode(idx, dims, 7, d);
    int place = d[0], sz = d[1], fi = d[2], ck = d[3], bk = d[4], oi = d[5], api = d[6];
    int w = sz ? 5 : 8, h = sz ? 2 : 1;
    gimg_t dd = make_guarded(fm[fi], w, h, 0, place, idx + 37);
    pixman_region32_t clip; int have_clip = 1;
    switch (ck) {
    case 0: have_clip = 0; pixman_region32_init(&clip); break;
    case 1: pixman_region32_init_rect(&clip, 1, 0, (unsigned)(w - 2), (unsigned)h); break;
    case 2: pixman_region32_init_rect(&clip, -16, -16, (unsigned)(w + 40), (unsigned)(h + 36)); break;                    /* larger than the image on every side */
    case 3: pixman_region32_init_rect(&clip, -5, 0, (unsigned)(w + 2), (unsigned)(h + 3)); break;                          /* sticks out left and below */
    default: { pixman_box32_t b[3] = { { -4, -2, w + 6, 0 }, { -4, 0, 2, h }, { w - 1, 0, w + 9, h + 7 } }; pixman_region32_init_rects(&clip, b, 3); break; }
    }
    if (have_clip) pixman_image_set_clip_region32(dd.img, &clip);
    pixman_region32_fini(&clip);
    pixman_box32_t box;
    switch (bk) {
    case 0: box = (pixman_box32_t){ 1, 0, w - 1, h }; break;
    case 1: box = (pixman_box32_t){ 2, 0, w + 30, h }; break;
    case 2: box = (pixman_box32_t){ -5, -3, w + 6, h + 4 }; break;
    case 3: box = (pixman_box32_t){ w + 3, h + 2, w + 20, h + 9 }; break;
    default: box = (pixman_box32_t){ -30000, -30000, 30000, 30000 }; break;
    }
    static const int LC[3] = { PH_CFG_DEFAULT, PH_CFG_GENERAL, PH_CFG_SSSE3 | PH_CFG_SSE2 };
    uint64_t n = 0;
    for (int ci = 0; ci < 3; ci++) for (int col = 0; col < 2; col++) {
        ph_set_cfg(LC[ci]);
        pixman_color_t c = { 0x8000, 0x4000, 0x2000, col ? 0xffff : 0x9000 };
        if (api) {
            /* fill_rectangles: 16-bit rectangles */
            int64_t rw = (int64_t)box.x2 - box.x1, rh = (int64_t)box.y2 - box.y1;
            pixman_rectangle16_t r = { (int16_t)(box.x1 < -32768 ? -32768 : box.x1), (int16_t)(box.y1 < -32768 ? -32768 : box.y1), (uint16_t)(rw > 65535 ? 65535 : rw), (uint16_t)(rh > 65535 ? 65535 : rh) };
            pixman_image_fill_rectangles(ops[oi], dd.img, &c, 1, &r);
        } else pixman_image_fill_boxes(ops[oi], dd.img, &c, 1, &box);
        n++;
    }
    vf_count_libcalls(n);
    uint64_t hh = vf_hash64(dd.g.lo, dd.g.size, 9);
    free_guarded(&dd);
    vf_count_eval(1); vf_count_nontrivial(1);
    if (!vf_in_confirm) vf_outcome(hh);
}

/* ---------------- rows that fill their storage words exactly ----------------
 * Narrow and sub-byte images whose row is a whole number of 32-bit words with no padding, used at full width as source or as mask of a
 * solid colour: loops that cache a word of bits (a1, a4) or pixels must not load the word after the last one.  End- and start-aligned
 * at PROT_NONE pages. */
static void full_row_case(uint64_t idx, void *vctx)
{
    (void)vctx;
    static const pixman_format_code_t fm[5] = { PIXMAN_a1, PIXMAN_a4, PIXMAN_a8, PIXMAN_r5g6b5, PIXMAN_r8g8b8 };
    static const int wd[5][3] = { { 32, 64, 96 }, { 8, 16, 40 }, { 4, 8, 20 }, { 2, 4, 34 }, { 4, 8, 12 } };   /* row bytes: multiples of 4 */
    static const pixman_format_code_t dfm[6] = { PIXMAN_a8r8g8b8, PIXMAN_x8r8g8b8, PIXMAN_r5g6b5, PIXMAN_b5g6r5, PIXMAN_a8, PIXMAN_a1 };
    static const pixman_op_t ops[4] = { PIXMAN_OP_OVER, PIXMAN_OP_ADD, PIXMAN_OP_SRC, PIXMAN_OP_IN };
    int dims[7] = { 2, 4, 6, 3, 2, 3, 5 }, d[7];
    vf_decode(idx, dims, 7, d);
    int place = d[0], oi = d[1], di = d[2], role = d[3], h = d[4] + 1, w = wd[d[6]][d[5]];
    gimg_t im = make_guarded(fm[d[6]], w, h, 0, place, idx + 29);
    gimg_t dd = make_guarded(dfm[di], w, h, 0, !place, 31);
    pixman_color_t c1 = { 0xffff, 0x8000, 0x4000, 0xffff }, c2 = { 0x6000, 0x3000, 0x1000, 0x8000 };
    pixman_image_t *solid = pixman_image_create_solid_fill(role == 2 ? &c2 : &c1);
    static const int LC[4] = { PH_CFG_DEFAULT, PH_CFG_SSSE3 | PH_CFG_SSE2, PH_CFG_GENERAL, PH_CFG_WHOLEOPS };
    uint64_t n = 0;
    for (int ci = 0; ci < 4; ci++) {
        ph_set_cfg(LC[ci]);
        for (int part = 0; part < 3; part++) {
            /* the whole image; its right half (ends at the last word); its last row only */
            int x0 = part == 1 ? w / 2 : 0, y0 = part == 2 ? h - 1 : 0;
            if (role == 0) pixman_image_composite32(ops[oi], im.img, NULL, dd.img, x0, y0, 0, 0, x0, y0, w - x0, h - y0);
            else pixman_image_composite32(ops[oi], solid, im.img, dd.img, 0, 0, x0, y0, x0, y0, w - x0, h - y0);
            n++;
        }
    }
    vf_count_libcalls(n);
    uint64_t hh = vf_hash64(dd.g.lo, dd.g.size, 3);
    pixman_image_unref(solid); free_guarded(&im); free_guarded(&dd);
    vf_count_eval(1); vf_count_nontrivial(1);
    if (!vf_in_confirm) vf_outcome(hh);
}

/* ---------------- rotations and flips that cover the source tightly ----------------
 * The request is exactly the rotated source, so every sample lies inside by the sampling rule floor(p - e) - but only just: a blitter
 * that rounds the origin differently touches column `width` or row `height`.  The source's storage ends (or starts) at a PROT_NONE page. */
static void tight_rot_case(uint64_t idx, void *vctx)
{
    (void)vctx;
    static const int32_t RM[6][4] = { { 0, F1, -F1, 0 }, { 0, -F1, F1, 0 }, { -F1, 0, 0, -F1 }, { -F1, 0, 0, F1 }, { F1, 0, 0, -F1 }, { 0, F1, F1, 0 } };
    static const int32_t FR[6] = { 0, E, 0x8000 - E, 0x8000, 0x8000 + E, F1 - E };
    static const pixman_format_code_t fm[4] = { PIXMAN_a8r8g8b8, PIXMAN_x8r8g8b8, PIXMAN_r5g6b5, PIXMAN_a8 };
    static const int sz[4][2] = { { 5, 3 }, { 16, 7 }, { 33, 2 }, { 1, 9 } };
    int dims[7] = { 2, 6, 6, 6, 4, 4, 2 }, d[7];
    vf_decode(idx, dims, 7, d);
    int place = d[0], ri = d[3], fi = d[4], si = d[5], fil = d[6];
    int sw = sz[si][0], sh = sz[si][1];
    int swap = RM[ri][0] == 0;                   /* quarter turn / transpose: destination is sh x sw */
    int dw = swap ? sh : sw, dh = swap ? sw : sh;
    gimg_t im = make_guarded(fm[fi], sw, sh, 0, place, idx + 17);
    pixman_transform_t t; memset(&t, 0, sizeof t); t.matrix[2][2] = F1;
    t.matrix[0][0] = RM[ri][0]; t.matrix[0][1] = RM[ri][1]; t.matrix[1][0] = RM[ri][2]; t.matrix[1][1] = RM[ri][3];
    /* integer part: the image of the destination rectangle [0,dw)x[0,dh) is exactly [0,sw)x[0,sh); then the fraction is added.  Only
     * fractions that keep every sample inside by the rule floor(p - e) are a "tight cover"; the others simply reach one pixel outside
     * and must be handled by the repeat mode - both kinds are legal requests */
    int negx = (RM[ri][0] < 0 || RM[ri][1] < 0), negy = (RM[ri][2] < 0 || RM[ri][3] < 0);
    t.matrix[0][2] = (negx ? sw * F1 : 0) + (negx ? -FR[d[1]] : FR[d[1]]);
    t.matrix[1][2] = (negy ? sh * F1 : 0) + (negy ? -FR[d[2]] : FR[d[2]]);
    pixman_image_set_transform(im.img, &t);
    pixman_image_set_filter(im.img, fil ? PIXMAN_FILTER_BILINEAR : PIXMAN_FILTER_NEAREST, NULL, 0);
    static const int LC[3] = { PH_CFG_DEFAULT, PH_CFG_GENERAL, PH_CFG_WHOLEOPS };
    uint64_t h = 0, n = 0;
    for (int same = 0; same < 2; same++) {
        gimg_t dd = make_guarded(same ? fm[fi] : PIXMAN_a8r8g8b8, dw, dh, 0, !place, 23);
        for (int ci = 0; ci < 3; ci++) {
            ph_set_cfg(LC[ci]);
            for (int rep = 0; rep < 4; rep += 2) {
                pixman_image_set_repeat(im.img, rep ? PIXMAN_REPEAT_PAD : PIXMAN_REPEAT_NONE);
                pixman_image_composite32(PIXMAN_OP_SRC, im.img, NULL, dd.img, 0, 0, 0, 0, 0, 0, dw, dh);
                pixman_image_composite32(PIXMAN_OP_OVER, im.img, NULL, dd.img, 0, 0, 0, 0, 0, 0, dw, dh);
                n += 2;
            }
        }
        h = vf_mix(h, vf_hash64(dd.g.lo, dd.g.size, 7));
        free_guarded(&dd);
    }
    vf_count_libcalls(n);
    free_guarded(&im);
    vf_count_eval(1); vf_count_nontrivial(1);
    if (!vf_in_confirm) vf_outcome(h);
}

/* ---------------- alpha maps whose size differs from their image's ----------------
 * The alpha map is its own image with its own width, height and storage; it is placed at an origin inside, partly outside or wholly
 * outside its owner.  Every fetcher (narrow and wide pipeline, untransformed and per-pixel) and the destination write-back must stay
 * inside the MAP's storage, which ends (or starts) at a PROT_NONE page. */
static void amap_case(uint64_t idx, void *vctx)
{
    (void)vctx;
    static const int asz[6][2] = { { 4, 2 }, { 4, 1 }, { 12, 2 }, { 8, 2 }, { 1, 1 }, { 8, 4 } };
    static const int aorg[6][2] = { { 0, 0 }, { 2, 0 }, { -3, 0 }, { 0, 1 }, { 5, -1 }, { -9, 0 } };
    static const pixman_format_code_t afm[4] = { PIXMAN_a8, PIXMAN_a1, PIXMAN_a8r8g8b8, PIXMAN_a2r10g10b10 };
    static const pixman_format_code_t dfm[4] = { PIXMAN_a8r8g8b8, PIXMAN_rgba_float, PIXMAN_a2r10g10b10, PIXMAN_r5g6b5 };
    static const int32_t XFM[4][6] = { { F1, 0, 0, 0, F1, 0 }, { 0x8000, 0, 0, 0, 0x8000, 0 }, { F1, 0, 0x8000, 0, F1, -0x8000 }, { 0, F1, 0, -F1, 0, 2 * F1 } };
    int dims[8] = { 2, 4, 4, 3, 4, 4, 6, 6 }, d[8];
    vf_decode(idx, dims, 8, d);
    int place = d[0], rep = d[1], xi = d[2], role = d[3], di = d[4], ai = d[5], oi = d[6], si = d[7];
    static const pixman_repeat_t reps[4] = { PIXMAN_REPEAT_NONE, PIXMAN_REPEAT_NORMAL, PIXMAN_REPEAT_PAD, PIXMAN_REPEAT_REFLECT };
    gimg_t owner = make_guarded(role == 2 ? dfm[di] : PIXMAN_a8r8g8b8, 8, 2, 0, !place, idx + 11);
    gimg_t map = make_guarded(afm[ai], asz[si][0], asz[si][1], 0, place, idx + 5);
    gimg_t other = make_guarded(role == 2 ? PIXMAN_a8r8g8b8 : dfm[di], 8, 2, 0, place, 41);       /* role 2: the source; else the destination */
    pixman_image_set_alpha_map(owner.img, map.img, (int16_t)aorg[oi][0], (int16_t)aorg[oi][1]);
    if (role != 2) {
        pixman_transform_t t; memset(&t, 0, sizeof t); t.matrix[0][0] = XFM[xi][0]; t.matrix[0][1] = XFM[xi][1]; t.matrix[0][2] = XFM[xi][2];
        t.matrix[1][0] = XFM[xi][3]; t.matrix[1][1] = XFM[xi][4]; t.matrix[1][2] = XFM[xi][5]; t.matrix[2][2] = F1;
        if (xi) pixman_image_set_transform(owner.img, &t);
        pixman_image_set_filter(owner.img, (xi & 1) ? PIXMAN_FILTER_BILINEAR : PIXMAN_FILTER_NEAREST, NULL, 0);
        pixman_image_set_repeat(owner.img, reps[rep]);
    } else if (xi || rep) { free_guarded(&owner); free_guarded(&map); free_guarded(&other); return; }     /* a destination has no transform / repeat */
    pixman_color_t white = { 0xffff, 0x8000, 0x4000, 0xc000 };
    pixman_image_t *solid = pixman_image_create_solid_fill(&white);
    static const int LC[2] = { PH_CFG_DEFAULT, PH_CFG_GENERAL };
    static const pixman_op_t ops[3] = { PIXMAN_OP_SRC, PIXMAN_OP_OVER, PIXMAN_OP_DISJOINT_OVER };
    uint64_t n = 0;
    for (int ci = 0; ci < 2; ci++) {
        ph_set_cfg(LC[ci]);
        for (int o = 0; o < 3; o++) for (int rq = 0; rq < 2; rq++) {
            int sx = rq ? -2 : 0, sy = rq ? 1 : 0;
            if (role == 0) pixman_image_composite32(ops[o], owner.img, NULL, other.img, sx, sy, 0, 0, 0, 0, 8, 2);
            else if (role == 1) pixman_image_composite32(ops[o], solid, owner.img, other.img, 0, 0, sx, sy, 0, 0, 8, 2);
            else pixman_image_composite32(ops[o], other.img, NULL, owner.img, sx, sy, 0, 0, 0, 0, 8, 2);
            n++;
        }
    }
    vf_count_libcalls(n);
    uint64_t h = vf_mix(vf_hash64(other.g.lo, other.g.size, 1), vf_hash64(map.g.lo, map.g.size, 2));
    pixman_image_unref(solid); free_guarded(&owner); free_guarded(&other); free_guarded(&map);
    vf_count_eval(1); vf_count_nontrivial(1);
    if (!vf_in_confirm) vf_outcome(h);
}

/* ---------------- requests wider than the library's on-stack scanline buffers ----------------
 * The scanline code works through fixed-size stack buffers (256 pixels for a destination's alpha map, 8192 * 3 bytes for the general
 * path's three scanlines): one-row images whose storage ends (or starts) at an inaccessible page, in every role, with widths on both sides
 * of one, two, four and eight such buffers, so that a chunk loop that fetches a full chunk for the tail touches the page. */
static void wide_row_case(uint64_t idx, void *vctx)
{
    (void)vctx;
    static const int WD[10] = { 255, 256, 257, 300, 511, 513, 769, 1025, 2049, 2731 };
    static const pixman_format_code_t fm[4] = { PIXMAN_a8r8g8b8, PIXMAN_r5g6b5, PIXMAN_a8, PIXMAN_a2r10g10b10 };
    static const pixman_format_code_t afm[3] = { PIXMAN_a8, PIXMAN_a1, PIXMAN_a8r8g8b8 };
    int dims[6] = { 10, 5, 4, 3, 2, 2 }, d[6];
    vf_decode(idx, dims, 6, d);
    int W = WD[d[0]], role = d[1], H = d[5] ? 2 : 1, place = d[4];
    if (role == 4) {
        /* role 4: the image as a scaled source with a repeat mode; x scale 1/2 and 2 with translations that put samples exactly on the centre of the
         * last column / on its right edge: the scaled scanline fetchers read pairs (x, x+1) and must take the second from the repeat, not from storage */
        static const pixman_repeat_t rp[3] = { PIXMAN_REPEAT_NORMAL, PIXMAN_REPEAT_PAD, PIXMAN_REPEAT_REFLECT };
        static const int32_t TX[5] = { 0, 0x4000, 0x8000, -0x4000, 0x10000 - 1 };
        gimg_t a = make_guarded(fm[d[2]], W, H, d[5] ? 2 : 0, place, idx + 3);
        gimg_t b = make_guarded(PIXMAN_a8r8g8b8, 2 * W + 6, H, 0, place, 17);
        gimg_t b16 = make_guarded(PIXMAN_r5g6b5, 2 * W + 6, H, 0, place, 19);
        pixman_image_set_repeat(a.img, rp[d[3]]);
        static const int LC[2] = { PH_CFG_DEFAULT, PH_CFG_GENERAL };
        uint64_t n = 0;
        for (int ci = 0; ci < 2; ci++) for (int fl = 0; fl < 2; fl++) for (int sc = 0; sc < 2; sc++) for (int ti = 0; ti < 5; ti++) for (int o = 0; o < 2; o++) {
            ph_set_cfg(LC[ci]);
            pixman_transform_t t; pixman_transform_init_identity(&t);
            t.matrix[0][0] = sc ? 0x20000 : 0x8000; t.matrix[0][2] = TX[ti]; t.matrix[1][2] = (ti & 1) ? 0x8000 : 0;
            pixman_image_set_transform(a.img, &t);
            pixman_image_set_filter(a.img, fl ? PIXMAN_FILTER_BILINEAR : PIXMAN_FILTER_NEAREST, NULL, 0);
            pixman_image_composite32(o ? PIXMAN_OP_OVER : PIXMAN_OP_SRC, a.img, NULL, (ti & 2) ? b16.img : b.img, -1, 0, 0, 0, 0, 0, sc ? W / 2 + 3 : 2 * W + 6, H);
            n++;
        }
        vf_count_libcalls(n);
        uint64_t h = vf_mix(vf_hash64(b.g.lo, b.g.size, 1), vf_hash64(b16.g.lo, b16.g.size, 3));
        free_guarded(&a); free_guarded(&b); free_guarded(&b16);
        vf_count_eval(1); vf_count_nontrivial(1);
        if (!vf_in_confirm) vf_outcome(h);
        return;
    }
    /* role 0: destination with an alpha map; 1: source with an alpha map; 2: plain source and destination; 3: the image as mask of a solid */
    gimg_t a = make_guarded(fm[d[2]], W, H, d[5] ? 2 : 0, place, idx + 3);           /* two-row images: negative stride, so row 0 is the one that ends the storage */
    gimg_t map = make_guarded(afm[d[3]], W, H, d[5] ? 2 : 0, place, idx + 7);
    gimg_t b = make_guarded(role == 2 ? fm[(d[2] + d[3]) & 3] : PIXMAN_a8r8g8b8, W, H, 0, place, 17);
    if (role < 2) pixman_image_set_alpha_map(a.img, map.img, 0, 0);
    pixman_color_t col = { 0xffff, 0x8000, 0x4000, 0xc000 };
    pixman_image_t *solid = pixman_image_create_solid_fill(&col);
    static const int LC[2] = { PH_CFG_DEFAULT, PH_CFG_GENERAL };
    static const pixman_op_t ops[5] = { PIXMAN_OP_SRC, PIXMAN_OP_OVER, PIXMAN_OP_ADD, PIXMAN_OP_IN_REVERSE, PIXMAN_OP_DISJOINT_OVER };
    uint64_t n = 0;
    for (int ci = 0; ci < 2; ci++) {
        ph_set_cfg(LC[ci]);
        for (int o = 0; o < 5; o++) for (int part = 0; part < 2; part++) {
            int x0 = part ? 1 : 0, w = part ? W - 1 : W;                              /* the whole row, and the row without its first pixel (ends at the same place) */
            if (role == 0) pixman_image_composite32(ops[o], b.img, NULL, a.img, x0, 0, 0, 0, x0, 0, w, H);
            else if (role == 1 || role == 2) pixman_image_composite32(ops[o], a.img, NULL, b.img, x0, 0, 0, 0, x0, 0, w, H);
            else pixman_image_composite32(ops[o], solid, a.img, b.img, 0, 0, x0, 0, x0, 0, w, H);
            n++;
        }
    }
    vf_count_libcalls(n);
    uint64_t h = vf_mix(vf_hash64(b.g.lo, b.g.size, 1), vf_mix(vf_hash64(a.g.lo, a.g.size, 3), vf_hash64(map.g.lo, map.g.size, 2)));
    pixman_image_unref(solid); free_guarded(&a); free_guarded(&b); free_guarded(&map);
    vf_count_eval(1); vf_count_nontrivial(1);
    if (!vf_in_confirm) vf_outcome(h);
}

/* ---------------- pixman_fill / pixman_blt on a view: empty and tiny requests at every position ----------------
 * The view is 7 pixels wide inside a parent whose rows are 32 bytes; everything outside the described rectangle - in particular everything when the
 * rectangle is empty - belongs to someone else and must keep its value (a fill that aligns its start before looking at the width writes there). */
static void tiny_fill_case(uint64_t idx, void *vctx)
{
    (void)vctx;
    static const int bpps[4] = { 8, 16, 32, 1 };
    int dims[6] = { 4, 10, 3, 4, 3, 2 }, d[6]; vf_decode(idx, dims, 6, d);
    int bpp = bpps[d[0]], x = d[1], y = d[2], w = d[3], h = d[4], api = d[5];
    enum { ROWS = 4, STRIDE_W = 8 };                               /* 8 words = 32 bytes per row */
    static const int LCF[2] = { PH_CFG_DEFAULT, PH_CFG_GENERAL };
    for (int ci = 0; ci < 2; ci++) {
        uint32_t parent[ROWS * STRIDE_W + 2], before[ROWS * STRIDE_W + 2], src[ROWS * STRIDE_W + 2];
        for (int i = 0; i < ROWS * STRIDE_W + 2; i++) { parent[i] = before[i] = 0x5e6f7a8bu ^ (uint32_t)i * 0x01010101u; src[i] = 0xc3d2e1f0u ^ (uint32_t)i * 0x02040608u; }
        ph_set_cfg(LCF[ci]);
        if (y + h > ROWS || (x + w) * bpp > STRIDE_W * 32 || (api == 1 && (1 + w) * bpp > STRIDE_W * 32)) continue;      /* the rectangle itself lies inside the rows */
        int ret;
        if (api == 0) ret = pixman_fill(parent + 1, STRIDE_W, bpp, x, y, w, h, 0xffffffffu);
        else { if (bpp == 1) continue; ret = pixman_blt(src + 1, parent + 1, STRIDE_W, STRIDE_W, bpp, bpp, 1, 0, x, y, w, h); }
        vf_count_libcalls(1);
        /* model */
        uint32_t exp[ROWS * STRIDE_W + 2]; memcpy(exp, before, sizeof exp);
        if (ret) for (int yy = y; yy < y + h; yy++) for (int xx = x; xx < x + w; xx++) {
            uint8_t *row = (uint8_t *)(exp + 1) + (size_t)yy * STRIDE_W * 4; const uint8_t *srow = (const uint8_t *)(src + 1) + (size_t)yy * STRIDE_W * 4;
            if (bpp == 1) { uint32_t *wd = (uint32_t *)row + (xx >> 5); *wd |= 1u << (xx & 31); }
            else for (int b = 0; b < bpp / 8; b++) row[xx * (bpp / 8) + b] = api == 0 ? 0xff : srow[(xx - x + 1) * (bpp / 8) + b + (size_t)(0 - 0)];
        }
        if (api == 1 && ret) {   /* blt copies from (1, 0) of the source: rows start at 0 */
            memcpy(exp, before, sizeof exp);
            for (int yy = 0; yy < h; yy++) for (int xx = 0; xx < w; xx++) for (int b = 0; b < bpp / 8; b++)
                ((uint8_t *)(exp + 1))[(size_t)(y + yy) * STRIDE_W * 4 + (size_t)(x + xx) * (bpp / 8) + b] = ((const uint8_t *)(src + 1))[(size_t)yy * STRIDE_W * 4 + (size_t)(1 + xx) * (bpp / 8) + b];
        }
        if (ret && memcmp(parent, exp, sizeof exp)) {
            int at = 0; for (int i = 0; i < (int)sizeof exp; i++) if (((uint8_t *)parent)[i] != ((uint8_t *)exp)[i]) { at = i; break; }
            vf_violation("c04-fill-blt-wrote-outside-the-rectangle", "%s(bpp=%d, x=%d, y=%d, width=%d, height=%d) on rows of %d bytes%s returned %d: byte %d of row %d of the parent buffer is %#04x, expected %#04x (was %#04x)",
                         api ? "pixman_blt" : "pixman_fill", bpp, x, y, w, h, STRIDE_W * 4, ci ? " [general chain]" : "", ret, (at - 4) % (STRIDE_W * 4), (at - 4) / (STRIDE_W * 4), ((uint8_t *)parent)[at], ((uint8_t *)exp)[at], ((uint8_t *)before)[at]);
            return;
        }
        if (!ret && memcmp(parent, before, sizeof before)) { vf_violation("c04-fill-blt-wrote-outside-the-rectangle", "%s(bpp=%d, x=%d, y=%d, width=%d, height=%d) returned FALSE but changed the buffer", api ? "pixman_blt" : "pixman_fill", bpp, x, y, w, h); return; }
    }
    vf_count_eval(1); vf_count_nontrivial(w && h);
    if (!vf_in_confirm) vf_outcome(idx);
}

/* ---------------- same-shape copies between views of larger buffers ----------------
 * Source and destination have the same format, width, height and a stride LARGER than a row, and each is a view whose last row
 * ends exactly at a PROT_NONE page (the bytes between rows belong to a parent image, the bytes after the last row do not exist).
 * Whole-image copies must neither read nor write the inter-row gaps or anything past the last pixel. */
static void copy_case(uint64_t idx, void *vctx)
{
    static const pixman_format_code_t fm[6] = { PIXMAN_a8, PIXMAN_r8g8b8, PIXMAN_r5g6b5, PIXMAN_a8r8g8b8, PIXMAN_a1, PIXMAN_a4 };
    static const char *fmn[6] = { "a8", "r8g8b8", "r5g6b5", "a8r8g8b8", "a1", "a4" };
    static const int sz[4][2] = { { 20, 6 }, { 20, 1 }, { 5, 3 }, { 33, 2 } };
    static const pixman_op_t ops[3] = { PIXMAN_OP_SRC, PIXMAN_OP_OVER, PIXMAN_OP_ADD };
    int fi = (int)(idx % 6); idx /= 6; int si = (int)(idx % 4); idx /= 4; int oi = (int)(idx % 3); idx /= 3; int ci = (int)(idx % NCFG_LIST); idx /= NCFG_LIST; int extra = (idx % 2) ? 12 : 4;
    int w = sz[si][0], h = sz[si][1], bpp = PIXMAN_FORMAT_BPP(fm[fi]);
    int rowbytes = (w * bpp + 7) / 8, stride = ((w * bpp + 31) / 32) * 4 + extra;
    size_t size = (size_t)stride * (h - 1) + (size_t)((rowbytes + 3) & ~3);       /* the last row has no padding behind it (rounded to the 4-byte unit of bits) */
    gp_t gs = gp_alloc(size, 0, 0x00), gd = gp_alloc(size, 0, 0x00);
    /* pixels: deterministic; inter-row gaps: sentinel 0xA7 in the destination (must survive), 0x5C in the source (must not be copied) */
    for (int y = 0; y < h; y++) {
        for (int b = 0; b < stride && (size_t)y * stride + b < size; b++) {
            int inrow = b < rowbytes;
            gs.lo[(size_t)y * stride + b] = inrow ? (uint8_t)(y * 37 + b * 11 + 5) : 0x5c;
            gd.lo[(size_t)y * stride + b] = inrow ? (uint8_t)(y * 13 + b * 7 + 1) : 0xa7;
        }
    }
    pixman_image_t *src = pixman_image_create_bits(fm[fi], w, h, (uint32_t *)gs.lo, stride), *dst = pixman_image_create_bits(fm[fi], w, h, (uint32_t *)gd.lo, stride);
    ph_set_cfg(CFG_LIST[ci]);
    pixman_image_composite32(ops[oi], src, NULL, dst, 0, 0, 0, 0, 0, 0, w, h);
    vf_count_libcalls(1);
    pixman_image_unref(src); pixman_image_unref(dst);
    char cfgn[64];
    for (int y = 0; y < h && !vf_failed(); y++) for (int b = rowbytes; b < stride && (size_t)y * stride + b < size; b++) {
        if (bpp < 8 && b == rowbytes - 1) continue;
        if (gd.lo[(size_t)y * stride + b] != 0xa7 && b >= ((w * bpp + 7) / 8))
            vf_violation("c04-copy-wrote-between-rows", "%s %dx%d stride %d op %d PIXMAN_DISABLE=[%s]: byte %d of row %d (beyond the %d bytes of the row, i.e. the parent image's pixels) was modified",
                         fmn[fi], w, h, stride, (int)ops[oi], ph_cfg_name(CFG_LIST[ci], cfgn, sizeof cfgn), b, y, rowbytes);
    }
    uint64_t hsh = vf_hash64(gd.lo, size, 9);
    gp_free(&gs); gp_free(&gd);
    vf_count_eval(1); vf_count_nontrivial(1);
    if (!vf_in_confirm) vf_outcome(hsh);
}

static const char *classify(const char *space, uint64_t idx, const char *defkey)
{
    static char k[64];
    snprintf(k, sizeof k, "c04-%s-%s", defkey, !strncmp(space, "trap", 4) ? "trapezoid" : !strncmp(space, "glyph", 5) ? "glyph" : !strncmp(space, "create", 6) ? "create-bits" : !strncmp(space, "same-shape", 10) ? "copy" : "composite");
    return k;
}

/* ---------------- arithmetic traps ----------------
 * Extreme but representable coordinates make pixman_edge_init divide INT_MIN by -1 (SIGFPE).  That is a crash, but it is
 * not a memory access outside the described storage, which is all C04 states; it is therefore counted and reported in the
 * evidence as an observation, not raised as a violation. */
#include <setjmp.h>
static sigjmp_buf fpe_jmp; static volatile int fpe_armed;
static volatile uint64_t *fpe_count;
static void on_fpe(int sig) { if (fpe_armed) { fpe_armed = 0; siglongjmp(fpe_jmp, 1); } signal(sig, SIG_DFL); raise(sig); }
#define GUARD_FPE(stmt) do { if (!sigsetjmp(fpe_jmp, 1)) { fpe_armed = 1; stmt; fpe_armed = 0; } else { __atomic_add_fetch(fpe_count, 1, __ATOMIC_RELAXED); } } while (0)

/* ---------------- trapezoids ---------------- */
static const int32_t TY[] = { 0, E, -E, 0x8000, F1, 3 * F1 + E, 4 * F1, 4 * F1 + 0x8000, 5 * F1 - E, 100 * F1, -100 * F1, 32767 * F1, -32767 * F1, 32767 * F1 + 0xfd70, (int32_t)0x80000000, (int32_t)0x80000000 + 0x8000, 0x7fffffff };
#define NTY ((int)(sizeof TY / sizeof TY[0]))
static const int32_t TX[] = { 0, -E, 0x8000, 5 * F1 + E, 6 * F1, -100 * F1, 100 * F1, 32767 * F1, (int32_t)0x80000000, 0x7fffffff };
#define NTX ((int)(sizeof TX / sizeof TX[0]))

static void trap_case(uint64_t idx, void *vctx)
{
    int th = vctx != NULL;
    /* quick: 9 of the 17 y values and 7 of the 10 x values (the extremes and the in-image ones) */
    static const int qy[9] = { 0, 3, 5, 7, 8, 11, 13, 14, 16 }, qx[7] = { 0, 1, 3, 4, 7, 8, 9 };
    int nty = th ? NTY : 9, ntx = th ? NTX : 7;
    int ti = (int)(idx % nty); idx /= nty; int bi = (int)(idx % nty); idx /= nty;
    int l1 = (int)(idx % ntx); idx /= ntx; int l2 = (int)(idx % ntx); idx /= ntx; int r1 = (int)(idx % ntx); idx /= ntx;
    if (!th) { ti = qy[ti]; bi = qy[bi]; l1 = qx[l1]; l2 = qx[l2]; r1 = qx[r1]; }
    int fmti = (int)(idx % 3); idx /= 3; int offi = (int)idx;   /* 0..4 */
    static const pixman_format_code_t tf[3] = { PIXMAN_a1, PIXMAN_a4, PIXMAN_a8 };
    static const int offs[5][2] = { { 0, 0 }, { 1, -1 }, { -2, 2 }, { 1 << 14, 0 }, { 0, -(1 << 14) } };
    gimg_t d = make_guarded(tf[fmti], 6, 4, 0, (int)(idx & 1), 5);
    pixman_trapezoid_t t; t.top = TY[ti]; t.bottom = TY[bi];
    t.left.p1.x = TX[l1]; t.left.p1.y = TY[ti]; t.left.p2.x = TX[l2]; t.left.p2.y = TY[bi];
    t.right.p1.x = TX[r1]; t.right.p1.y = TY[(ti + 3) % NTY]; t.right.p2.x = TX[(l1 + l2 + 1) % NTX]; t.right.p2.y = TY[(bi + 5) % NTY];
    if (vf_verbose) { printf("  trapezoid top=%d bottom=%d left (%d,%d)-(%d,%d) right (%d,%d)-(%d,%d) target %s 6x4 offsets (%d,%d)\n", t.top, t.bottom, t.left.p1.x, t.left.p1.y, t.left.p2.x, t.left.p2.y,
        t.right.p1.x, t.right.p1.y, t.right.p2.x, t.right.p2.y, fmti == 0 ? "a1" : fmti == 1 ? "a4" : "a8", offs[offi][0], offs[offi][1]); fflush(stdout); }
    GUARD_FPE(pixman_rasterize_trapezoid(d.img, &t, offs[offi][0], offs[offi][1]));
    pixman_trap_t tr = { { t.left.p1.x, t.right.p1.x, t.top }, { t.left.p2.x, t.right.p2.x, t.bottom } };
    GUARD_FPE(pixman_add_traps(d.img, (int16_t)offs[offi][0], (int16_t)offs[offi][1], 1, &tr));
    GUARD_FPE(pixman_add_trapezoids(d.img, (int16_t)offs[offi][0], offs[offi][1], 1, &t));
    /* composite entry point into an a8r8g8b8 destination */
    gimg_t d2 = make_guarded(PIXMAN_a8r8g8b8, 6, 4, 0, 1, 6);
    pixman_color_t col = { 0xffff, 0, 0, 0xffff }; pixman_image_t *solid = pixman_image_create_solid_fill(&col);
    /* composite_trapezoids allocates a temporary mask as large as the trapezoid's bounding box: only boxes up to 2^18 pixels are
     * composited here (larger ones cost milliseconds of memset each and exercise nothing but malloc) */
    int64_t bx1 = t.left.p1.x, bx2 = t.left.p1.x;
    { int64_t xs[4] = { t.left.p1.x, t.left.p2.x, t.right.p1.x, t.right.p2.x }; for (int q = 0; q < 4; q++) { if (xs[q] < bx1) bx1 = xs[q]; if (xs[q] > bx2) bx2 = xs[q]; } }
    int64_t area = ((bx2 - bx1) >> 16) * (((int64_t)t.bottom - t.top) >> 16);
    if (pixman_trapezoid_valid(&t) && area >= 0 && area <= (1 << 18)) {
        GUARD_FPE(pixman_composite_trapezoids(PIXMAN_OP_OVER, solid, d2.img, tf[fmti], 0, 0, offs[offi][0] % 100, offs[offi][1] % 100, 1, &t));
        GUARD_FPE(pixman_composite_trapezoids(PIXMAN_OP_ADD, solid, d.img, tf[fmti], 0, 0, offs[offi][0] % 100, offs[offi][1] % 100, 1, &t));
    }
    pixman_triangle_t tri = { { TX[l1], TY[ti] }, { TX[l2], TY[bi] }, { TX[r1], TY[(ti + 3) % NTY] } };
    GUARD_FPE(pixman_add_triangles(d.img, offs[offi][0], offs[offi][1], 1, &tri));
    vf_count_libcalls(6);
    uint64_t h = vf_hash64(d.g.lo, d.g.size, 1) ^ vf_hash64(d2.g.lo, d2.g.size, 2);
    pixman_image_unref(solid);
    free_guarded(&d); free_guarded(&d2);
    vf_count_eval(1); if (h != (vf_hash64("", 0, 1))) vf_count_nontrivial(1);
    if (!vf_in_confirm) vf_outcome(h);
    if (vf_want_sample() && !vf_in_confirm && ti == 5 && bi == 7 && l1 == 2) vf_sample("trapezoid top=%d bottom=%d left (%d..%d) right from %d into %s 6x4 offsets (%d,%d): rasterize/add_traps/add_trapezoids/composite_trapezoids/add_triangles",
                  TY[ti], TY[bi], TX[l1], TX[l2], TX[r1], fmti == 0 ? "a1" : fmti == 1 ? "a4" : "a8", offs[offi][0], offs[offi][1]);
}

/* ---------------- glyph positions ---------------- */
static void glyph_case(uint64_t idx, void *vctx)
{
    static const int32_t P[] = { 0, -1, 1, 5, 6, 7, -100, 100, 32767, -32768, 1 << 20, -(1 << 20), INT32_MAX - 2, INT32_MIN + 2 };
    int np = sizeof P / sizeof P[0];
    int xi = (int)(idx % np); idx /= np; int yi = (int)(idx % np); idx /= np; int gf = (int)(idx % 3); idx /= 3; int route = (int)(idx % 2); idx /= 2; int org = (int)idx; /* 0..2 */
    static const pixman_format_code_t gfm[3] = { PIXMAN_a1, PIXMAN_a8, PIXMAN_a8r8g8b8 };
    gimg_t d = make_guarded(PIXMAN_a8r8g8b8, 6, 4, 0, 0, 3);
    gimg_t gi = make_guarded(gfm[gf], 3, 2, 0, 1, 9);
    pixman_glyph_cache_t *cache = pixman_glyph_cache_create();
    pixman_color_t col = { 0x8000, 0x4000, 0xffff, 0xffff }; pixman_image_t *solid = pixman_image_create_solid_fill(&col);
    pixman_glyph_cache_freeze(cache);
    static const int orgs[3][2] = { { 0, 0 }, { 2, 1 }, { -30000, 30000 } };
    const void *g = pixman_glyph_cache_insert(cache, (void *)1, (void *)2, orgs[org][0], orgs[org][1], gi.img);
    if (g) {
        pixman_glyph_t gs[2] = { { P[xi], P[yi], g }, { P[(xi + 1) % np], P[yi], g } };
        if (route == 0) pixman_composite_glyphs_no_mask(PIXMAN_OP_OVER, solid, d.img, 0, 0, 0, 0, cache, 2, gs);
        else pixman_composite_glyphs(PIXMAN_OP_OVER, solid, d.img, PIXMAN_a8, 0, 0, 0, 0, 0, 0, 6, 4, cache, 2, gs);
    }
    vf_count_libcalls(1);
    pixman_glyph_cache_thaw(cache); pixman_glyph_cache_destroy(cache);
    uint64_t h = vf_hash64(d.g.lo, d.g.size, 1);
    pixman_image_unref(solid); free_guarded(&gi); free_guarded(&d);
    vf_count_eval(1); vf_count_nontrivial(1);
    if (!vf_in_confirm) vf_outcome(h);
}

/* ---------------- pixman_image_create_bits(NULL) overflow arithmetic ---------------- */
static void create_case(uint64_t idx, void *vctx)
{
    static const int S[] = { 0, 1, 2, 1 << 15, 1 << 16, (1 << 16) + 1, 1 << 26, 1 << 30, INT_MAX };
    int ns = sizeof S / sizeof S[0];
    static const pixman_format_code_t F[] = { PIXMAN_a8r8g8b8, PIXMAN_r5g6b5, PIXMAN_a8, PIXMAN_a1, PIXMAN_r8g8b8, PIXMAN_rgba_float };
    int w = S[idx % ns]; idx /= ns; int h = S[idx % ns]; idx /= ns; pixman_format_code_t f = F[idx % 6];
    /* only sizes whose true byte count is <= 64 MiB may be attempted for real; larger ones must be refused
     * (NULL) by the overflow checks or by malloc, never produce a too-small buffer */
    pixman_image_t *img = pixman_image_create_bits(f, w, h, NULL, 0);
    vf_count_libcalls(1);
    if (img) {
        int st = pixman_image_get_stride(img); uint8_t *bits = (uint8_t *)pixman_image_get_data(img);
        int bpp = PIXMAN_FORMAT_BPP(f);
        long long need_row = ((long long)w * bpp + 7) / 8;
        if (w > 0 && h > 0) {
            if ((long long)st < need_row) vf_violation("c04-create-bits-stride-too-small", "create_bits(%dx%d bpp %d): stride %d < %lld bytes per row", w, h, bpp, st, need_row);
            else if (bits && (long long)st * h <= (1LL << 31)) {
                /* last pixel must be writable: under ASan a too-small allocation reports here */
                volatile uint8_t *last = bits + (size_t)st * (h - 1) + (need_row - 1);
                *last = 0x5a;
                pixman_color_t col = { 0xffff, 0xffff, 0xffff, 0xffff };
                pixman_box32_t b = { w - 1, h - 1, w, h };
                pixman_image_fill_boxes(PIXMAN_OP_SRC, img, &col, 1, &b);
            }
        }
        pixman_image_unref(img);
        vf_count_nontrivial(1);
    }
    vf_count_eval(1);
    if (!vf_in_confirm) vf_outcome(vf_mix((uint64_t)w << 32 | (uint32_t)h, img != NULL));
}

int main(int argc, char **argv)
{
    vf_init(argc, argv, "C04", "exploration");
    PAGE = sysconf(_SC_PAGESIZE);
    ph_init_cfgs();
    init_xf();
    vf_classify_abnormal = classify;
    vf_hang_s = 240;    /* REPEAT_NORMAL on a 1x1 source at coordinate ~32767 loops 32767 times per sample: slow, not hung */
    fpe_count = mmap(NULL, 4096, PROT_READ | PROT_WRITE, MAP_SHARED | MAP_ANONYMOUS, -1, 0);
    { struct sigaction sa; memset(&sa, 0, sizeof sa); sa.sa_handler = on_fpe; sa.sa_flags = SA_NODEFER; sigaction(SIGFPE, &sa, NULL); }
    int th = vf_is_thorough();
    vf_rule = "E1 with sanitizer oracle: every (source format, size, stride mode, guard-page placement, transform, filter, repeat) x request geometries x operators x implementation "
              "configurations is composited (image as source and as mask) with AddressSanitizer on and every pixel buffer abutting PROT_NONE pages; trapezoid, glyph and create_bits "
              "entry points over coordinate alphabets reaching the 16.16 and int32 extremes. evaluations = cases; a violation is any ASan report or fault, attributed to the case index. "
              "non-trivial = the destination digest changed; outcomes = distinct destination digests.";
    vf_assume("AddressSanitizer (clang) instruments the C code and intrinsics; guard pages catch what it cannot see");
    vf_assume("image sizes up to 64x3 and the listed formats only");
    c4_ctx c = { th };
    uint64_t nfull = th ? (uint64_t)4 * 6 * NXF * 3 * 5 * NSF : (uint64_t)4 * 4 * NXF * 2 * 3 * NSF;
    vf_space_run("composite-transformed-sources", nfull, c4_case, &c);
    vf_space_run("trapezoid-entry-points", th ? (uint64_t)NTY * NTY * NTX * NTX * NTX * 3 * 5 : (uint64_t)9 * 9 * 7 * 7 * 7 * 3 * 2, trap_case, th ? &c : NULL);
    vf_space_run("coordinate-range-edges", (uint64_t)4 * 3 * 15 * 8 * 7 * 3 * 2, limit_case, NULL);
    vf_space_run("fills-with-boxes-and-clips-beyond-the-image", (uint64_t)2 * 2 * 4 * 5 * 5 * 4 * 2, fill_bounds_case, NULL);
    vf_space_run("rows-that-fill-their-words-exactly", (uint64_t)2 * 4 * 6 * 3 * 2 * 3 * 5, full_row_case, NULL);
    vf_space_run("rotations-covering-the-source-tightly", (uint64_t)2 * 6 * 6 * 6 * 4 * 4 * 2, tight_rot_case, NULL);
    vf_space_run("alpha-maps-of-other-sizes", (uint64_t)2 * 4 * 4 * 3 * 4 * 4 * 6 * 6, amap_case, NULL);
    vf_space_run("rows-wider-than-the-stack-scanline-buffers", (uint64_t)10 * 5 * 4 * 3 * 2 * 2, wide_row_case, NULL);
    vf_space_run("empty-and-tiny-fills-and-blts-on-a-view", 4 * 10 * 3 * 4 * 3 * 2, tiny_fill_case, NULL);
    vf_space_run("same-shape-copies-between-views", (uint64_t)6 * 4 * 3 * NCFG_LIST * 2, copy_case, NULL);
    vf_space_run("glyph-positions", (uint64_t)14 * 14 * 3 * 2 * 3, glyph_case, NULL);
    vf_space_run("create-bits-sizes", 9 * 9 * 6, create_case, NULL);
    static char b[2200];
    snprintf(b, sizeof b, "%d source formats x %s sizes x %s stride modes x alternating guard-page placement x %d transforms x %d filters x 4 repeats x 6 requests x %d ops x %d cfgs x %d destination formats; "
             "trapezoids %dx%d y x %d^3 x values x 3 depths x %d offsets; same-shape copies between padded views (6 formats x 4 sizes x 3 ops x 6 cfgs); glyphs 14x14 positions; create_bits 9x9 sizes x 6 formats; coordinate-range edges: 7 filters (NEAREST, FAST, BILINEAR, GOOD, BEST, convolution, separable) x 8 scales (1/256..2, negative) x "
             "15 translations within 1.5 pixels of +-32768 x axis x/y/both x 4 repeats x 3 source formats x 2 sizes x 4 cfgs x SRC/OVER x source/mask role onto one-row destinations ending / starting at a guard page; fills: fill_boxes / fill_rectangles x 4 formats x 5 destination clips (none, inside, larger than the image, sticking out, three rectangles around it) x 5 boxes (inside, overhanging, outside, huge) x 4 ops x 2 colours x 3 cfgs; full-word rows: a1/a4/a8/r5g6b5/r8g8b8 images whose rows fill their 32-bit words exactly x 3 widths x 2 heights as source / mask of an opaque / translucent solid x 6 destination formats x 4 ops x 3 sub-rectangles x 4 cfgs; tight-cover rotations: 6 turn/flip matrices x 6x6 translation fractions (0, e, 1/2-e, 1/2, 1/2+e, 1-e) x 4 formats x 4 sizes x nearest/bilinear x same-format and a8r8g8b8 destinations x NONE/PAD x SRC/OVER x 3 cfgs; alpha maps: 6 map sizes x 6 origins x 4 map formats on an 8x2 owner in the source / mask / destination role x 4 transforms x 4 repeats x 4 partner formats (narrow and wide pipeline) x 3 ops x 2 cfgs", NSF, th ? "5 of 6" : "3 of 6", th ? "3" : "2 of 3", NXF, th ? 6 : 4,
             th ? 3 : 2, th ? 6 : 4, th ? 2 : 1, th ? NTY : 9, th ? NTY : 9, th ? NTX : 7, th ? 5 : 2);
    vf_bounds = b;
    snprintf(vf->extra_json, sizeof vf->extra_json, "\"arithmetic_traps_observed\": %llu, \"arithmetic_traps_note\": \"SIGFPE (INT_MIN / -1 in pixman_edge_init for edges spanning the whole 16.16 y range) is a crash but not an out-of-bounds access; counted, not judged\"", (unsigned long long)*fpe_count);
    return vf_finish();
}
