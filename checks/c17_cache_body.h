/* c17_cache_body.h — glyph-cache model checking, instantiated once per table size.
 *
 * Before including: pixman-glyph.c has been #included under c17_rename.h with prefix P, so that
 *   L(x)  = P##x   the library's (renamed) identifiers, incl. statics hash/lookup_glyph and the types
 *   N(x)           this harness's per-configuration identifiers
 *   NK             number of keys,  CFG_NAME  "small"/"medium",  CFG_HOMES  wanted home slots
 * and HASH_SIZE / HASH_MASK / N_GLYPHS_HIGH_WATER / N_GLYPHS_LOW_WATER / TOMBSTONE are those of the include.
 *
 * Reference model: map key -> present, MRU list (front = most recently used), freeze count.
 */

#define NOPS (3 + 4 * NK)
#define glyph_t L(glyph_t)      /* the library's TOMBSTONE macro is written in terms of glyph_t */
enum { N(OP_PROBE) = 0, N(OP_FREEZE) = 1, N(OP_THAW) = 2, N(OP_INSERT) = 3, N(OP_REMOVE) = 3 + NK, N(OP_USE1) = 3 + 2 * NK, N(OP_USE2) = 3 + 3 * NK };

typedef L(pixman_glyph_cache_t) N(cache_t);
typedef L(glyph_t) N(glyph_t);

static void *N(font_key) = (void *)(uintptr_t)0x1000;
static void *N(keys)[NK];
static int N(home)[NK];

typedef struct {
    int present[NK]; const void *ptr[NK];
    int mru[NK]; int nlive;               /* mru[0] = most recently used */
    int freeze;
} N(model_t);

typedef struct {
    N(cache_t) *cache;
    N(model_t) m;
    int dead;                             /* a mutating call was abandoned: cache must not be touched again */
} N(run_t);

static void N(choose_keys)(void)
{
    static const int want[NK] = CFG_HOMES;
    int found = 0; int taken[NK]; memset(taken, 0, sizeof taken);
    for (uintptr_t g = 1; g < 100000 && found < NK; g++) {
        int h = (int)(L(hash)(N(font_key), (void *)g) & HASH_MASK);
        for (int k = 0; k < NK; k++)
            if (!taken[k] && want[k] == h) { taken[k] = 1; N(keys)[k] = (void *)g; N(home)[k] = h; found++; break; }
    }
    if (found < NK) { fprintf(stderr, "c17: could not find keys with the wanted home slots\n"); exit(2); }
}

static int N(key_index)(const void *font, const void *gk)
{
    if (font != N(font_key)) return -1;
    for (int k = 0; k < NK; k++) if (N(keys)[k] == gk) return k;
    return -1;
}

/* ---- model ---- */
static void N(m_unlink)(N(model_t) *m, int k)
{
    int j = 0;
    for (int i = 0; i < m->nlive; i++) if (m->mru[i] != k) m->mru[j++] = m->mru[i];
    m->nlive = j; m->present[k] = 0; m->ptr[k] = NULL;
}
static void N(m_front)(N(model_t) *m, int k)
{
    int j = 1; int old[NK]; memcpy(old, m->mru, sizeof old); int n = m->nlive;
    int had = 0; for (int i = 0; i < n; i++) if (old[i] == k) had = 1;
    m->mru[0] = k;
    for (int i = 0; i < n; i++) if (old[i] != k) m->mru[j++] = old[i];
    m->nlive = had ? n : n + 1;
}

/* ---- white-box readers ---- */
static void N(census)(N(cache_t) *c, int *live, int *tomb, int *nul)
{
    *live = *tomb = *nul = 0;
    for (int i = 0; i < HASH_SIZE; i++) {
        N(glyph_t) *g = c->glyphs[i];
        if (!g) (*nul)++; else if (g == TOMBSTONE) (*tomb)++; else (*live)++;
    }
}

/* exact packing: 4 bits per slot (0 NULL, 1 TOMBSTONE, 2+k key, 15 foreign), 4 bits per MRU entry (k+1, 0 end, 15 foreign), 4 bits freeze */
static uint64_t N(canon)(N(cache_t) *c)
{
    uint64_t v = 0; int sh = 0;
    for (int i = 0; i < HASH_SIZE; i++, sh += 4) {
        N(glyph_t) *g = c->glyphs[i]; uint64_t code;
        if (!g) code = 0; else if (g == TOMBSTONE) code = 1;
        else { int k = N(key_index)(g->font_key, g->glyph_key); code = k < 0 ? 15 : (uint64_t)(2 + k); }
        v |= code << sh;
    }
    int n = 0;
    for (pixman_link_t *l = c->mru.head; l != (pixman_link_t *)&c->mru && n < NK; l = l->next, n++, sh += 4) {
        N(glyph_t) *g = CONTAINER_OF(N(glyph_t), mru_link, l);
        int k = N(key_index)(g->font_key, g->glyph_key);
        v |= (uint64_t)(k < 0 ? 15 : k + 1) << sh;
    }
    sh = 4 * HASH_SIZE + 4 * NK;
    v |= (uint64_t)(c->freeze_count & 15) << sh;
    return v;
}

static const char *N(canon_str)(uint64_t v, char *buf, size_t cap)
{
    size_t l = 0; int sh = 0;
    for (int i = 0; i < HASH_SIZE; i++, sh += 4) {
        int code = (int)(v >> sh & 15);
        l += snprintf(buf + l, cap - l, "%c", code == 0 ? '.' : code == 1 ? 'T' : code == 15 ? '?' : 'a' + code - 2);
    }
    l += snprintf(buf + l, cap - l, " mru=");
    for (int i = 0; i < NK; i++, sh += 4) { int code = (int)(v >> sh & 15); if (code) l += snprintf(buf + l, cap - l, "%c", code == 15 ? '?' : 'a' + code - 1); }
    snprintf(buf + l, cap - l, " frozen=%d", (int)(v >> (4 * HASH_SIZE + 4 * NK) & 15));
    return buf;
}

static const char *N(op_str)(int op, char *buf, size_t cap)
{
    if (op == N(OP_PROBE)) snprintf(buf, cap, "probe");
    else if (op == N(OP_FREEZE)) snprintf(buf, cap, "freeze");
    else if (op == N(OP_THAW)) snprintf(buf, cap, "thaw");
    else if (op < N(OP_REMOVE)) snprintf(buf, cap, "insert(%c)", 'a' + op - N(OP_INSERT));
    else if (op < N(OP_USE1)) snprintf(buf, cap, "remove(%c)", 'a' + op - N(OP_REMOVE));
    else if (op < N(OP_USE2)) snprintf(buf, cap, "draw_no_mask(%c)", 'a' + op - N(OP_USE1));
    else snprintf(buf, cap, "draw_mask(%c)", 'a' + op - N(OP_USE2));
    return buf;
}

static const char *N(hist_str)(const uint16_t *hist, int len, int op, char *buf, size_t cap)
{
    size_t l = 0; char t[32];
    l += snprintf(buf + l, cap - l, CFG_NAME "[HASH=%d HIGH=%d LOW=%d homes:", HASH_SIZE, N_GLYPHS_HIGH_WATER, N_GLYPHS_LOW_WATER);
    for (int k = 0; k < NK; k++) l += snprintf(buf + l, cap - l, " %c=%d", 'a' + k, N(home)[k]);
    l += snprintf(buf + l, cap - l, "] history:");
    for (int i = 0; i < len && l + 40 < cap; i++) l += snprintf(buf + l, cap - l, " %s", N(op_str)(hist[i], t, sizeof t));
    if (op >= 0) snprintf(buf + l, cap - l, " => %s", N(op_str)(op, t, sizeof t));
    return buf;
}

/* ---- the glyph images: content is a function of the key ---- */
static pixman_format_code_t N(gfmt)(int k) { static const pixman_format_code_t f[3] = { PIXMAN_a8, PIXMAN_a1, PIXMAN_a8r8g8b8 }; return f[k % 3]; }
static int N(gw)(int k) { return 1 + (k * 2) % 5; }
static int N(gh)(int k) { return 1 + k % 3; }
static int N(gox)(int k) { return k + 1; }
static int N(goy)(int k) { return -k; }
static uint32_t N(gpix)(int k, int x, int y)
{
    uint32_t h = (uint32_t)vf_mix((uint64_t)k * 131 + (uint64_t)x * 17 + (uint64_t)y * 7 + 3, NK);
    pixman_format_code_t f = N(gfmt)(k);
    if (f == PIXMAN_a8) return h & 0xff;
    if (f == PIXMAN_a1) return h & 1;
    /* premultiplied argb */
    uint32_t a = h >> 24; uint32_t r = ((h >> 16 & 0xff) * a) / 255, g = ((h >> 8 & 0xff) * a) / 255, b = ((h & 0xff) * a) / 255;
    return a << 24 | r << 16 | g << 8 | b;
}
static void N(put)(uint32_t *bits, int stride_words, pixman_format_code_t f, int x, int y, uint32_t v)
{
    uint32_t *row = bits + y * stride_words;
    if (f == PIXMAN_a8) ((uint8_t *)row)[x] = (uint8_t)v;
    else if (f == PIXMAN_a1) { if (v) row[x >> 5] |= 1u << (x & 31); else row[x >> 5] &= ~(1u << (x & 31)); }
    else row[x] = v;
}
static uint32_t N(get)(const uint32_t *bits, int stride_words, pixman_format_code_t f, int x, int y)
{
    const uint32_t *row = bits + y * stride_words;
    if (f == PIXMAN_a8) return ((const uint8_t *)row)[x];
    if (f == PIXMAN_a1) return row[x >> 5] >> (x & 31) & 1;
    return row[x];
}

/* per-process scratch images for the draw ("use") operations */
static pixman_image_t *N(use_src), *N(use_dst);
static void N(use_images)(void)
{
    if (N(use_src)) return;
    pixman_color_t c = { 0x8000, 0x4000, 0x2000, 0xc000 };
    N(use_src) = pixman_image_create_solid_fill(&c);
    N(use_dst) = pixman_image_create_bits(PIXMAN_a8r8g8b8, 12, 10, NULL, 0);
}

/* Apply one operation to cache and model.  `checked` = this is the transition under test (oracle on
 * return values); during history replay only the model is advanced.  Returns 0 if the op is not
 * enabled in the model state. */
static int N(apply)(N(run_t) *r, int op, int checked, const char *desc)
{
    N(model_t) *m = &r->m; N(cache_t) *c = r->cache; int hung = 0;
    if (op == N(OP_PROBE)) return 1;
    if (op == N(OP_FREEZE)) {
        if (m->freeze >= 2) return 0;
        WD_CALL(hung, L(pixman_glyph_cache_freeze)(c));
        if (hung) { r->dead = 1; vf_violation("c17-call-hangs", "%s: freeze did not return", desc); return 1; }
        m->freeze++;
        return 1;
    }
    if (op == N(OP_THAW)) {
        if (m->freeze <= 0) return 0;
        int g, t, z; N(census)(c, &g, &t, &z);
        WD_CALL(hung, L(pixman_glyph_cache_thaw)(c));
        if (hung) { r->dead = 1; vf_violation("c17-call-hangs", "%s: thaw did not return", desc); return 1; }
        m->freeze--;
        if (m->freeze == 0 && g + t > N_GLYPHS_HIGH_WATER) {
            /* above the high-water mark: LRU-first down to LOW; everything when tombstones alone exceed HIGH */
            if (t > N_GLYPHS_HIGH_WATER) { while (m->nlive) N(m_unlink)(m, m->mru[m->nlive - 1]); }
            while (m->nlive > N_GLYPHS_LOW_WATER) N(m_unlink)(m, m->mru[m->nlive - 1]);
        }
        return 1;
    }
    if (op < N(OP_REMOVE)) {
        int k = op - N(OP_INSERT);
        if (m->freeze <= 0 || m->present[k]) return 0;
        /* a fresh source image; scribbled over and destroyed right after the insert (the cache must hold a copy) */
        pixman_format_code_t f = N(gfmt)(k); int w = N(gw)(k), h = N(gh)(k);
        int sw = f == PIXMAN_a8r8g8b8 ? w : 1;
        uint32_t buf[16]; memset(buf, 0, sizeof buf);
        for (int y = 0; y < h; y++) for (int x = 0; x < w; x++) N(put)(buf, sw, f, x, y, N(gpix)(k, x, y));
        pixman_image_t *img = pixman_image_create_bits(f, w, h, buf, sw * 4);
        const void *ret = NULL;
        WD_CALL(hung, ret = L(pixman_glyph_cache_insert)(c, N(font_key), N(keys)[k], N(gox)(k), N(goy)(k), img));
        for (int i = 0; i < 16; i++) buf[i] = ~buf[i];
        pixman_image_unref(img);
        if (hung) { r->dead = 1; vf_violation("c17-call-hangs", "%s: insert did not return", desc); return 1; }
        if (m->nlive < HASH_SIZE) {
            if (!ret) { if (checked) vf_violation("c17-insert-refused-with-room", "%s: insert returned NULL although only %d of %d slots hold glyphs", desc, m->nlive, HASH_SIZE); r->dead = 1; return 1; }
            N(m_front)(m, k); m->present[k] = 1; m->ptr[k] = ret;
        } else {
            if (ret) { if (checked) vf_violation("c17-insert-into-full-table", "%s: insert into a table holding %d glyphs in %d slots returned %p instead of NULL", desc, m->nlive, HASH_SIZE, ret); r->dead = 1; return 1; }
        }
        return 1;
    }
    if (op < N(OP_USE1)) {
        int k = op - N(OP_REMOVE);
        if (!m->present[k]) return 0;
        WD_CALL(hung, L(pixman_glyph_cache_remove)(c, N(font_key), N(keys)[k]));
        if (hung) { r->dead = 1; vf_violation("c17-call-hangs", "%s: remove did not return", desc); return 1; }
        N(m_unlink)(m, k);
        return 1;
    }
    {
        int masked = op >= N(OP_USE2);
        int k = op - (masked ? N(OP_USE2) : N(OP_USE1));
        if (!m->present[k]) return 0;
        const void *g = NULL;
        WD_CALL(hung, g = L(pixman_glyph_cache_lookup)(c, N(font_key), N(keys)[k]));
        if (hung) { vf_violation("c17-lookup-hangs-present-key", "%s: lookup of the present key %c did not return", desc, 'a' + k); r->dead = 1; return 1; }
        if (!g) { if (checked) vf_violation("c17-lookup-lost-entry", "%s: lookup(%c) returned NULL for a live entry", desc, 'a' + k); r->dead = 1; return 1; }
        N(use_images)();
        pixman_glyph_t pg = { 4 + N(gox)(k), 4 + N(goy)(k), g };      /* glyph box at (4,4), inside destination and mask: add_glyphs() only touches the MRU list for glyphs that meet the mask */
        if (masked) WD_CALL(hung, L(pixman_composite_glyphs)(PIXMAN_OP_OVER, N(use_src), N(use_dst), PIXMAN_a8, 0, 0, 0, 0, 0, 0, 12, 10, c, 1, &pg));
        else WD_CALL(hung, L(pixman_composite_glyphs_no_mask)(PIXMAN_OP_OVER, N(use_src), N(use_dst), 0, 0, 0, 0, c, 1, &pg));
        if (hung) { r->dead = 1; vf_violation("c17-call-hangs", "%s: glyph drawing did not return", desc); return 1; }
        N(m_front)(m, k);
        return 1;
    }
}

/* Full comparison of cache against model (white-box consistency + lookups of present keys; lookups of
 * absent keys when `probe_absent`).  Returns 1 if a lookup hang was the only problem (state still intact). */
static void N(check)(N(run_t) *r, int probe_absent, const char *desc)
{
    N(model_t) *m = &r->m; N(cache_t) *c = r->cache; char cs[96];
    uint64_t cv = N(canon)(c);
    int live, tomb, nul; N(census)(c, &live, &tomb, &nul);
    if (c->n_glyphs != live || c->n_tombstones != tomb) {
        vf_violation("c17-counters-disagree-with-slots", "%s: n_glyphs=%d n_tombstones=%d but the slots hold %d glyphs and %d tombstones [%s]", desc, c->n_glyphs, c->n_tombstones, live, tomb, N(canon_str)(cv, cs, sizeof cs));
        return;
    }
    if (c->freeze_count != m->freeze) { vf_violation("c17-freeze-count", "%s: freeze_count=%d, model %d", desc, c->freeze_count, m->freeze); return; }
    /* slots: every live glyph is a model entry, once, reachable from its home slot without crossing NULL, content as inserted */
    int seen[NK]; memset(seen, 0, sizeof seen);
    for (int i = 0; i < HASH_SIZE; i++) {
        N(glyph_t) *g = c->glyphs[i];
        if (!g || g == TOMBSTONE) continue;
        int k = N(key_index)(g->font_key, g->glyph_key);
        if (k < 0 || !m->present[k] || seen[k]) {
            vf_violation(k >= 0 && !m->present[k] ? "c17-entry-not-in-model" : "c17-slot-corrupt", "%s: slot %d holds %s [%s]", desc, i, k < 0 ? "an unknown key" : seen[k] ? "a duplicate entry" : "an entry the model does not have (removed or evicted)", N(canon_str)(cv, cs, sizeof cs));
            return;
        }
        seen[k] = 1;
        for (int j = N(home)[k]; (j & HASH_MASK) != i; j++)
            if (c->glyphs[j & HASH_MASK] == NULL) { vf_violation("c17-entry-unreachable", "%s: glyph %c in slot %d is cut off from its home slot %d by the empty slot %d [%s]", desc, 'a' + k, i, N(home)[k], j & HASH_MASK, N(canon_str)(cv, cs, sizeof cs)); return; }
        if ((const void *)g != m->ptr[k]) { vf_violation("c17-entry-identity", "%s: entry of %c is %p, insert returned %p", desc, 'a' + k, (void *)g, m->ptr[k]); return; }
        pixman_image_t *im = g->image;
        /* the stored origin is read through the public extents query (box of the glyph drawn at pen position 0,0 = -origin .. size - origin), not from the entry's fields */
        int g_ox, g_oy; { pixman_glyph_t pg0 = { 0, 0, g }; pixman_box32_t ex = { 0, 0, 0, 0 }; L(pixman_glyph_get_extents)(c, 1, &pg0, &ex); g_ox = -ex.x1; g_oy = -ex.y1; }
        if (g_ox != N(gox)(k) || g_oy != N(goy)(k) || !im || im->type != BITS || im->bits.format != N(gfmt)(k) || im->bits.width != N(gw)(k) || im->bits.height != N(gh)(k)) {
            vf_violation("c17-entry-content", "%s: entry %c has origin (%d,%d) format %#x size %dx%d; inserted origin (%d,%d) format %#x size %dx%d", desc, 'a' + k, g_ox, g_oy,
                         im ? im->bits.format : 0, im ? im->bits.width : 0, im ? im->bits.height : 0, N(gox)(k), N(goy)(k), N(gfmt)(k), N(gw)(k), N(gh)(k));
            return;
        }
        for (int y = 0; y < im->bits.height; y++) for (int x = 0; x < im->bits.width; x++) {
            uint32_t got = N(get)(im->bits.bits, im->bits.rowstride, im->bits.format, x, y), exp = N(gpix)(k, x, y);
            if (got != exp) { vf_violation("c17-entry-content", "%s: entry %c pixel (%d,%d) is %#x, inserted %#x", desc, 'a' + k, x, y, got, exp); return; }
        }
    }
    for (int k = 0; k < NK; k++) if (m->present[k] && !seen[k]) {
        vf_violation("c17-entry-disappeared", "%s: key %c is live in the model (never removed, no thaw above the high-water mark evicted it) but is in no slot [%s]", desc, 'a' + k, N(canon_str)(cv, cs, sizeof cs));
        return;
    }
    /* MRU list == live set, in model order */
    {
        int n = 0, bad = 0; pixman_link_t *prev = (pixman_link_t *)&c->mru;
        for (pixman_link_t *l = c->mru.head; l != (pixman_link_t *)&c->mru; prev = l, l = l->next, n++) {
            if (n >= m->nlive) { bad = 1; break; }
            N(glyph_t) *g = CONTAINER_OF(N(glyph_t), mru_link, l);
            if ((const void *)g != m->ptr[m->mru[n]] || l->prev != prev) { bad = 1; break; }
        }
        if (!bad && (n != m->nlive || c->mru.tail != prev)) bad = 1;
        if (bad) {
            char ms[NK + 1]; for (int i = 0; i < m->nlive; i++) ms[i] = (char)('a' + m->mru[i]); ms[m->nlive] = 0;
            vf_violation("c17-mru-list", "%s: MRU list differs from the model's LRU order '%s' (or is not a well-formed list of the live set) [%s]", desc, ms, N(canon_str)(cv, cs, sizeof cs));
            return;
        }
    }
    /* lookups */
    for (int k = 0; k < NK; k++) {
        if (!m->present[k] && !probe_absent) continue;
        const void *g = NULL; int hung = 0;
        WD_CALL(hung, g = L(pixman_glyph_cache_lookup)(c, N(font_key), N(keys)[k]));
        if (hung) {
            /* suspected hang: run the same call again, alone, with the long limit before reporting.  lookup_glyph()
             * reads nothing but the slot array and the key, so one long confirmation per distinct (slot contents, key)
             * is shared between states that differ only in MRU order / freeze count (and between workers). */
            uint64_t sig = (cv & (((uint64_t)1 << (4 * HASH_SIZE)) - 1)) | (uint64_t)(k + 1) << 40 | (uint64_t)HASH_SIZE << 48;
            if (!wd_confirmed_lookup(sig)) {
                wd_set_limit_ms(wd_long_ms);
                WD_CALL(hung, g = L(pixman_glyph_cache_lookup)(c, N(font_key), N(keys)[k]));
                wd_set_limit_ms(wd_short_ms);
                if (hung) wd_confirmed_add(sig);
            }
        }
        if (hung) {
            /* predicate of the known finding: the key is absent and no slot is NULL, so the probe loop of
             * lookup_glyph() has nothing to stop at */
            const char *key = (!m->present[k] && nul == 0) ? "c17-lookup-hangs-table-full" : m->present[k] ? "c17-lookup-hangs-present-key" : "c17-lookup-hangs";
            vf_violation(key, "%s: lookup(%c) [%s key, home slot %d] did not return within %d ms (re-run alone: not within %d ms); table [%s] has %d glyphs + %d tombstones in %d slots",
                         desc, 'a' + k, m->present[k] ? "present" : "absent", N(home)[k], wd_short_ms, wd_long_ms, N(canon_str)(cv, cs, sizeof cs), live, tomb, HASH_SIZE);
            return;
        }
        if (m->present[k] && g != m->ptr[k]) { vf_violation(g ? "c17-lookup-wrong-entry" : "c17-lookup-lost-entry", "%s: lookup(%c) returned %p, the live entry is %p [%s]", desc, 'a' + k, g, m->ptr[k], N(canon_str)(cv, cs, sizeof cs)); return; }
        if (!m->present[k] && g) { vf_violation("c17-lookup-found-absent", "%s: lookup(%c) returned %p for a key that is not in the map [%s]", desc, 'a' + k, g, N(canon_str)(cv, cs, sizeof cs)); return; }
    }
}

static void N(teardown)(N(run_t) *r)
{
    if (r->dead || !r->cache) return;      /* after an abandoned mutating call the cache is left alone (leaked in the worker) */
    int hung = 0;
    for (int i = 0; i < 4 && r->cache->freeze_count > 0; i++) WD_CALL(hung, L(pixman_glyph_cache_thaw)(r->cache));
    if (!hung && r->cache->freeze_count == 0) WD_CALL(hung, L(pixman_glyph_cache_destroy)(r->cache));
    r->cache = NULL;
}

static uint64_t N(init_canon)(void)
{
    N(cache_t) *c = L(pixman_glyph_cache_create)();
    uint64_t v = N(canon)(c);
    L(pixman_glyph_cache_destroy)(c);
    return v;
}

/* one transition */
static int N(trans)(bfs_t *b, const uint16_t *hist, int len, uint64_t canon, int op, uint64_t *succ)
{
    (void)b;
    wd_arm();
    char desc[480]; N(hist_str)(hist, len, op, desc, sizeof desc);
    N(run_t) r; memset(&r, 0, sizeof r);
    int hung = 0;
    WD_CALL(hung, r.cache = L(pixman_glyph_cache_create)());
    if (hung || !r.cache) { vf_violation("c17-call-hangs", "%s: cache_create failed", desc); return BFS_PRUNED; }
    for (int i = 0; i < len; i++) {
        int en = N(apply)(&r, hist[i], 0, desc);
        if (!en || r.dead || vf_failed()) {
            if (!vf_failed()) vf_harderr("c17 %s: history is not replayable at step %d", desc, i);
            N(teardown)(&r); return BFS_PRUNED;
        }
    }
    uint64_t here = N(canon)(r.cache);
    if (here != canon) {
        char a[96], bb[96];
        vf_harderr("c17 replay non-determinism: %s rebuilt [%s] but the state was discovered as [%s]", desc, N(canon_str)(here, a, sizeof a), N(canon_str)(canon, bb, sizeof bb));
        N(teardown)(&r); return BFS_PRUNED;
    }
    int en = N(apply)(&r, op, 1, desc);
    if (!en) { N(teardown)(&r); return BFS_DISABLED; }
    int status = BFS_OK;
    if (r.dead || vf_failed()) status = BFS_PRUNED;
    else {
        N(check)(&r, op == N(OP_PROBE), desc);
        *succ = N(canon)(r.cache);
        if (vf_failed()) {
            /* a lookup that hangs is a read-only probe: the state itself is intact and is explored further
             * (a full table must still refuse insertion, evict on thaw, ...).  Anything else ends the path. */
            if (strncmp(vf_pending_rec.key, "c17-lookup-hangs", 16)) status = BFS_PRUNED;
        }
        if (vf_verbose) { char a[96]; printf("   %s\n   -> [%s]\n", desc, N(canon_str)(*succ, a, sizeof a)); }
        if (status == BFS_OK && op != N(OP_PROBE) && vf_want_sample() && len >= 6 && !vf_in_confirm) {
            char a[96]; vf_sample("%s -> [%s]", desc, N(canon_str)(*succ, a, sizeof a));
        }
    }
    N(teardown)(&r);
    return status;
}

static void N(run_cache_space)(int max_depth, uint64_t max_states)
{
    N(choose_keys)();
    static bfs_t b;
    bfs_init(&b, "cache-" CFG_NAME, NOPS, max_depth, max_states, N(trans), NULL, N(init_canon)());
    bfs_run(&b);
    if (!vf_replaying()) bfs_report(&b, "cache_" CFG_NAME);
    bfs_free(&b);
}

#undef NOPS
#undef glyph_t
