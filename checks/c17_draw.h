/* c17_draw.h — drawing half of C17 (engine E1): glyph drawing is per-glyph.
 *
 * Uses the UNMODIFIED archive member pixman-glyph.o (default table size) through the public API.
 *   pixman_composite_glyphs_no_mask  ==  for each glyph in order: pixman_image_composite32 (op, src, glyph image as
 *       mask [component alpha when the glyph has both A and RGB, as the cache sets it], dest) over the glyph's box at
 *       (dest_x + x - origin_x, dest_y + y - origin_y), source aligned so that (src_x, src_y) meets (dest_x, dest_y);
 *   pixman_composite_glyphs          ==  composite32 (op, src, M, dest, src_x, src_y, 0, 0, dest_x, dest_y, w, h) where M
 *       is a zeroed w x h image of mask_format (component alpha when it has A and RGB) into which (white IN glyph) has
 *       been ADDed at (x - origin_x - mask_x, y - origin_y - mask_y).  M is computed here by hand (saturating adds),
 *       and cross-checked against the route "composite32 (ADD, white, glyph, M)".
 * Bit-exact comparison of the whole destination buffer (padding included).
 */
#ifndef C17_DRAW_H
#define C17_DRAW_H

#define DW 8
#define DH 6
#define D_NPOS 6
static const int d_pos[D_NPOS][2] = { { 2, 1 }, { -1, -1 }, { DW - 2, DH - 1 }, { -10, 3 }, { DW, 0 }, { 3, 2 } };
static const char *d_posname[D_NPOS] = { "inside", "straddles-top-left", "straddles-bottom-right", "outside-left", "outside-right-edge", "inside-overlapping" };
static const pixman_op_t d_ops[6] = { PIXMAN_OP_SRC, PIXMAN_OP_OVER, PIXMAN_OP_ADD, PIXMAN_OP_IN, PIXMAN_OP_OUT_REVERSE, PIXMAN_OP_XOR };
static const char *d_opname[6] = { "SRC", "OVER", "ADD", "IN", "OUT_REVERSE", "XOR" };
static const pixman_format_code_t d_dfmt[3] = { PIXMAN_a8r8g8b8, PIXMAN_a8, PIXMAN_r5g6b5 };
static const char *d_dfmtname[3] = { "a8r8g8b8", "a8", "r5g6b5" };
static const pixman_format_code_t d_gf[4] = { PIXMAN_a1, PIXMAN_a8, PIXMAN_a8r8g8b8, PIXMAN_a8r8g8b8_sRGB };
static const char *d_gfname[4] = { "a1", "a8", "a8r8g8b8", "a8r8g8b8_sRGB" };
/* format of glyph i under format combination c: all a1, all a8, all argb, mixed (a8, argb, a1), mixed-A (a1, a8, a1); and, for the
 * no_mask entry point only (the hand-made mask model is 8-bit linear), all a8r8g8b8_sRGB and mixed (a8, sRGB, a1) */
#define D_NCOMBO 7
static int d_combo_fmt(int c, int i) { static const int t[D_NCOMBO][3] = { { 0, 0, 0 }, { 1, 1, 1 }, { 2, 2, 2 }, { 1, 2, 0 }, { 0, 1, 0 }, { 3, 3, 3 }, { 1, 3, 0 } }; return t[c][i]; }
static const char *d_comboname[D_NCOMBO] = { "a1", "a8", "a8r8g8b8", "mixed(a8,argb,a1)", "mixed(a1,a8,a1)", "a8r8g8b8_sRGB", "mixed(a8,sRGB,a1)" };
static const int d_gsize[3][2] = { { 3, 3 }, { 5, 2 }, { 2, 4 } };
static const int d_gorigin[3][2] = { { 0, 0 }, { 1, 2 }, { 40001, -100000 } };       /* an origin is an int: the third glyph's lies far outside any 16-bit range (its pen position is as far the other way) */
#define D_NCLIP 4
static const char *d_clipname[D_NCLIP] = { "none", "rect(1,1,6,5)", "two-rects", "empty" };
#define D_NSRC 3
static const char *d_srcname[D_NSRC] = { "solid", "bits3x2-repeat-normal", "bits8x6-no-repeat" };
#define D_NOFF 2
static const int d_off[D_NOFF][4] = { { 0, 0, 0, 0 }, { 1, -1, 2, 1 } };   /* dest_x dest_y src_x src_y */
/* api: 0 = no_mask; 1..6 = masked with mask_format {a1,a8,argb} x rectangle {whole destination, inner 5x4 at (2,1)} */
#define D_NAPI 7

static uint32_t d_glyph_pix(int gi, int fi, int x, int y)
{
    uint32_t h = (uint32_t)vf_mix((uint64_t)(gi * 7 + fi) * 1315423911u + (uint64_t)x * 31 + (uint64_t)y * 131, 17);
    if (fi == 0) return h & 1 ? 1 : (h >> 1 & 3) == 0;          /* a1: mostly set */
    if (fi == 1) { uint32_t v = h & 0xff; if ((h >> 8 & 7) == 0) v = 0xff; if ((h >> 8 & 7) == 1) v = 0; if ((h >> 8 & 7) == 2) v = 0x80; return v; }
    uint32_t a = h >> 24; if ((h >> 20 & 3) == 0) a = 0xff; if ((h >> 20 & 3) == 1) a = 0x7f;
    /* component-alpha glyph: channels are independent coverages */
    return a << 24 | (h & 0xffffff);
}

static void d_put(uint32_t *bits, int sw, pixman_format_code_t f, int x, int y, uint32_t v)
{
    uint32_t *row = bits + y * sw;
    if (f == PIXMAN_a8) ((uint8_t *)row)[x] = (uint8_t)v;
    else if (f == PIXMAN_a1) { if (v) row[x >> 5] |= 1u << (x & 31); else row[x >> 5] &= ~(1u << (x & 31)); }
    else if (f == PIXMAN_r5g6b5) ((uint16_t *)row)[x] = (uint16_t)v;
    else row[x] = v;
}

static int d_stride_words(pixman_format_code_t f, int w) { return (w * PIXMAN_FORMAT_BPP(f) + 31) / 32 + 1; }   /* one padding word per row */

static uint32_t d_premul(uint32_t h)
{
    uint32_t a = h >> 24;
    if ((h & 3) == 0) a = 0xff; else if ((h & 3) == 1) a = 0;
    uint32_t r = (h >> 16 & 0xff) * a / 255, g = (h >> 8 & 0xff) * a / 255, b = (h & 0xff) * a / 255;
    return a << 24 | r << 16 | g << 8 | b;
}

static void d_fill_dest(uint32_t *bits, pixman_format_code_t f, int w, int h, int sw)
{
    for (int i = 0; i < sw * h; i++) bits[i] = 0xdeadbeefu ^ (uint32_t)i * 0x9e3779b9u;    /* padding gets a pattern too */
    for (int y = 0; y < h; y++) for (int x = 0; x < w; x++) {
        uint32_t hh = (uint32_t)vf_mix((uint64_t)x * 97 + (uint64_t)y * 389 + 5, 3);
        uint32_t v = f == PIXMAN_a8r8g8b8 ? d_premul(hh) : f == PIXMAN_a8 ? (hh >> 8 & 0xff) : (hh & 0xffff);
        d_put(bits, sw, f, x, y, v);
    }
}

/* "no clip" has two histories: never clipped, or clipped to a small rectangle earlier and reset with NULL since (the old boxes stay in the image; only the flag says they are dead) */
static int d_clip_was_reset;
static void d_set_clip(pixman_image_t *img, int clip)
{
    pixman_region32_t r;
    if (clip == 0 && d_clip_was_reset) {
        pixman_region32_init_rect(&r, 0, 0, 3, 2); pixman_image_set_clip_region32(img, &r); pixman_region32_fini(&r);
        if (d_clip_was_reset == 1) pixman_image_set_clip_region32(img, NULL); else pixman_image_set_clip_region(img, NULL);
        return;
    }
    if (clip == 0) return;
    if (clip == 1) pixman_region32_init_rect(&r, 1, 1, 5, 4);
    else if (clip == 2) { pixman_box32_t b[2] = { { 0, 0, 3, 2 }, { 5, 2, 8, 5 } }; pixman_region32_init_rects(&r, b, 2); pixman_region32_union_rect(&r, &r, 0, 2, 3, 4); }
    else pixman_region32_init(&r);
    pixman_image_set_clip_region32(img, &r);
    pixman_region32_fini(&r);
}

static pixman_image_t *d_make_src(int kind, uint32_t *buf)
{
    if (kind == 0) { pixman_color_t c = { 0x9000, 0x3000, 0x6000, 0xc000 }; return pixman_image_create_solid_fill(&c); }
    int w = kind == 1 ? 3 : DW, h = kind == 1 ? 2 : DH;
    for (int y = 0; y < h; y++) for (int x = 0; x < w; x++) buf[y * w + x] = d_premul((uint32_t)vf_mix((uint64_t)x * 7 + (uint64_t)y * 13 + (uint64_t)kind, 11));
    pixman_image_t *s = pixman_image_create_bits(PIXMAN_a8r8g8b8, w, h, buf, w * 4);
    if (kind == 1) pixman_image_set_repeat(s, PIXMAN_REPEAT_NORMAL);
    return s;
}

/* every operator the library defines (the glyph entry points take any of them) */
static const pixman_op_t d_allops[] = {
    PIXMAN_OP_CLEAR, PIXMAN_OP_SRC, PIXMAN_OP_DST, PIXMAN_OP_OVER, PIXMAN_OP_OVER_REVERSE, PIXMAN_OP_IN, PIXMAN_OP_IN_REVERSE, PIXMAN_OP_OUT, PIXMAN_OP_OUT_REVERSE,
    PIXMAN_OP_ATOP, PIXMAN_OP_ATOP_REVERSE, PIXMAN_OP_XOR, PIXMAN_OP_ADD, PIXMAN_OP_SATURATE,
    PIXMAN_OP_DISJOINT_CLEAR, PIXMAN_OP_DISJOINT_SRC, PIXMAN_OP_DISJOINT_DST, PIXMAN_OP_DISJOINT_OVER, PIXMAN_OP_DISJOINT_OVER_REVERSE, PIXMAN_OP_DISJOINT_IN,
    PIXMAN_OP_DISJOINT_IN_REVERSE, PIXMAN_OP_DISJOINT_OUT, PIXMAN_OP_DISJOINT_OUT_REVERSE, PIXMAN_OP_DISJOINT_ATOP, PIXMAN_OP_DISJOINT_ATOP_REVERSE, PIXMAN_OP_DISJOINT_XOR,
    PIXMAN_OP_CONJOINT_CLEAR, PIXMAN_OP_CONJOINT_SRC, PIXMAN_OP_CONJOINT_DST, PIXMAN_OP_CONJOINT_OVER, PIXMAN_OP_CONJOINT_OVER_REVERSE, PIXMAN_OP_CONJOINT_IN,
    PIXMAN_OP_CONJOINT_IN_REVERSE, PIXMAN_OP_CONJOINT_OUT, PIXMAN_OP_CONJOINT_OUT_REVERSE, PIXMAN_OP_CONJOINT_ATOP, PIXMAN_OP_CONJOINT_ATOP_REVERSE, PIXMAN_OP_CONJOINT_XOR,
    PIXMAN_OP_MULTIPLY, PIXMAN_OP_SCREEN, PIXMAN_OP_OVERLAY, PIXMAN_OP_DARKEN, PIXMAN_OP_LIGHTEN, PIXMAN_OP_COLOR_DODGE, PIXMAN_OP_COLOR_BURN, PIXMAN_OP_HARD_LIGHT,
    PIXMAN_OP_SOFT_LIGHT, PIXMAN_OP_DIFFERENCE, PIXMAN_OP_EXCLUSION, PIXMAN_OP_HSL_HUE, PIXMAN_OP_HSL_SATURATION, PIXMAN_OP_HSL_COLOR, PIXMAN_OP_HSL_LUMINOSITY };
#define D_NALLOPS ((int)(sizeof d_allops / sizeof d_allops[0]))
typedef struct { int nglyph; int ndfmt; int npos; int allops; } d_ctx;

static pixman_glyph_cache_t *d_cache;        /* per process; emptied at the end of every case */

static void d_case(uint64_t idx, void *vctx)
{
    d_ctx *c = vctx; int n = c->nglyph;
    int dims[12], v[12], nd = 0;
    dims[nd++] = D_NAPI; dims[nd++] = c->allops ? D_NALLOPS : 6; dims[nd++] = D_NSRC; dims[nd++] = c->ndfmt; dims[nd++] = D_NOFF; dims[nd++] = D_NCLIP; dims[nd++] = n ? D_NCOMBO : 1;
    for (int i = 0; i < n; i++) dims[nd++] = c->npos;
    vf_decode(idx, dims, nd, v);
    int api = v[0], opi = v[1], srck = v[2], dfi = v[3], offi = v[4], clip = v[5], combo = v[6];
    d_clip_was_reset = (int)((idx >> 1) % 3);
    int pos[3] = { 0, 0, 0 }; for (int i = 0; i < n; i++) pos[i] = v[7 + i];
    if (combo >= 5 && api != 0) return;
    pixman_op_t op = c->allops ? d_allops[opi] : d_ops[opi]; pixman_format_code_t df = d_dfmt[dfi];
    char opnm[24]; if (c->allops) snprintf(opnm, sizeof opnm, "op#%#x", (unsigned)op); else snprintf(opnm, sizeof opnm, "%s", d_opname[opi]);
    int dest_x = d_off[offi][0], dest_y = d_off[offi][1], src_x = d_off[offi][2], src_y = d_off[offi][3];

    char desc[520]; size_t dl = 0;
    dl += snprintf(desc + dl, sizeof desc - dl, "%s op=%s src=%s dest=%s(8x6) clip=%s dest_xy=(%d,%d) src_xy=(%d,%d) glyphs=%d[%s]", api == 0 ? "composite_glyphs_no_mask" : "composite_glyphs",
                   opnm, d_srcname[srck], d_dfmtname[dfi], (clip == 0 && d_clip_was_reset) ? (d_clip_was_reset == 1 ? "none(clipped to 0,0 3x2 earlier, reset with set_clip_region32 NULL)" : "none(clipped to 0,0 3x2 earlier, reset with set_clip_region NULL)") : d_clipname[clip], dest_x, dest_y, src_x, src_y, n, n ? d_comboname[combo] : "-");
    for (int i = 0; i < n; i++) dl += snprintf(desc + dl, sizeof desc - dl, " g%d:%s", i, d_posname[pos[i]]);

    /* glyph images (the harness's own copies) */
    uint32_t gbuf[3][16]; pixman_image_t *gimg[3] = { 0, 0, 0 }; int gfi[3]; int gsw[3];
    for (int i = 0; i < n; i++) {
        gfi[i] = d_combo_fmt(combo, i); pixman_format_code_t f = d_gf[gfi[i]]; int w = d_gsize[i][0], h = d_gsize[i][1];
        gsw[i] = PIXMAN_FORMAT_BPP(f) == 32 ? w : (f == PIXMAN_a8 ? 2 : 1);
        memset(gbuf[i], 0, sizeof gbuf[i]);
        for (int y = 0; y < h; y++) for (int x = 0; x < w; x++) d_put(gbuf[i], gsw[i], f, x, y, d_glyph_pix(i, gfi[i], x, y));
        gimg[i] = pixman_image_create_bits(f, w, h, gbuf[i], gsw[i] * 4);
    }
    /* cache */
    if (!d_cache) d_cache = pixman_glyph_cache_create();
    pixman_glyph_cache_freeze(d_cache);
    pixman_glyph_t pg[3]; int bx[3], by[3];
    for (int i = 0; i < n; i++) {
        const void *g;
        if ((idx + (uint64_t)i) & 1) {
            /* the caller's image owns storage the library allocated; after the insert the caller reuses it (pixels inverted, made repeating) and drops it:
             * the cache entry must be a copy taken at insert time */
            pixman_format_code_t f = d_gf[gfi[i]]; int w = d_gsize[i][0], h = d_gsize[i][1];
            pixman_image_t *ins = pixman_image_create_bits(f, w, h, NULL, 0);
            uint8_t *data = (uint8_t *)pixman_image_get_data(ins); int st = pixman_image_get_stride(ins), rowb = (w * PIXMAN_FORMAT_BPP(f) + 7) / 8;
            for (int y = 0; y < h; y++) memcpy(data + (size_t)y * (size_t)st, (uint8_t *)gbuf[i] + (size_t)y * (size_t)gsw[i] * 4, (size_t)rowb);
            g = pixman_glyph_cache_insert(d_cache, (void *)(uintptr_t)0x77, (void *)(uintptr_t)(i + 1), d_gorigin[i][0], d_gorigin[i][1], ins);
            for (int y = 0; y < h; y++) for (int b = 0; b < rowb; b++) data[(size_t)y * (size_t)st + (size_t)b] ^= 0xff;
            pixman_image_set_repeat(ins, PIXMAN_REPEAT_NORMAL);
            pixman_image_unref(ins);
        } else
            g = pixman_glyph_cache_insert(d_cache, (void *)(uintptr_t)0x77, (void *)(uintptr_t)(i + 1), d_gorigin[i][0], d_gorigin[i][1], gimg[i]);
        vf_count_libcalls(1);
        if (!g) { vf_violation("c17-draw-insert-failed", "%s: insert of glyph %d into an empty default-size cache returned NULL", desc, i); }
        /* the glyph box lands at d_pos in destination coordinates: box = dest_xy + (x,y) - origin */
        bx[i] = d_pos[pos[i]][0]; by[i] = d_pos[pos[i]][1];
        pg[i].x = bx[i] - dest_x + d_gorigin[i][0]; pg[i].y = by[i] - dest_y + d_gorigin[i][1]; pg[i].glyph = g;
        if (PIXMAN_FORMAT_A(d_gf[gfi[i]]) && PIXMAN_FORMAT_RGB(d_gf[gfi[i]])) pixman_image_set_component_alpha(gimg[i], 1);
    }
    if (vf_failed()) goto out_cache;

    {
        int sw = d_stride_words(df, DW);
        uint32_t lib[DH * 10], ref[DH * 10], init[DH * 10];
        d_fill_dest(init, df, DW, DH, sw); memcpy(lib, init, sizeof lib); memcpy(ref, init, sizeof ref);
        pixman_image_t *dl_img = pixman_image_create_bits(df, DW, DH, lib, sw * 4), *dr_img = pixman_image_create_bits(df, DW, DH, ref, sw * 4);
        d_set_clip(dl_img, clip); d_set_clip(dr_img, clip);
        uint32_t sbuf1[DW * DH], sbuf2[DW * DH];
        pixman_image_t *s1 = d_make_src(srck, sbuf1), *s2 = d_make_src(srck, sbuf2);

        if (api == 0) {
            pixman_composite_glyphs_no_mask(op, s1, dl_img, src_x, src_y, dest_x, dest_y, d_cache, n, pg);
            vf_count_libcalls(1);
            for (int i = 0; i < n; i++) {
                pixman_image_composite32(op, s2, gimg[i], dr_img, src_x + bx[i] - dest_x, src_y + by[i] - dest_y, 0, 0, bx[i], by[i], d_gsize[i][0], d_gsize[i][1]);
                vf_count_libcalls(1);
            }
        } else {
            int mfi = (api - 1) % 3, rect = (api - 1) / 3;
            pixman_format_code_t mf = d_gf[mfi];
            /* mask rectangle: (mask_x, mask_y) of the conceptual infinite glyph plane is aligned with (dest_x, dest_y) */
            int mask_x = rect ? 2 - dest_x : -dest_x, mask_y = rect ? 1 - dest_y : -dest_y;   /* plane coords == dest coords minus dest_xy (see pg[].x) */
            int w = rect ? 5 : DW, h = rect ? 4 : DH;
            int ddx = rect ? 2 : 0, ddy = rect ? 1 : 0;        /* where the rectangle lands in the destination */
            /* glyph positions were computed for dest_xy: plane position of the glyph box = (bx - dest_x, by - dest_y); it meets
             * destination pixel (plane - mask_xy + ddxy) */
            int sxx = src_x + (ddx - dest_x), syy = src_y + (ddy - dest_y);   /* keep source alignment comparable */
            pixman_composite_glyphs(op, s1, dl_img, mf, sxx, syy, mask_x, mask_y, ddx, ddy, w, h, d_cache, n, pg);
            vf_count_libcalls(1);
            /* reference mask by hand */
            uint32_t mbuf[DH * 10], mbuf2[DH * 10]; int msw = mf == PIXMAN_a8r8g8b8 ? w : (mf == PIXMAN_a8 ? (w + 3) / 4 : 1);
            memset(mbuf, 0, sizeof mbuf); memset(mbuf2, 0, sizeof mbuf2);
            uint8_t acc[DH][DW][4]; memset(acc, 0, sizeof acc);
            for (int i = 0; i < n; i++) {
                int gx0 = (bx[i] - dest_x) - mask_x, gy0 = (by[i] - dest_y) - mask_y;
                for (int y = 0; y < d_gsize[i][1]; y++) for (int x = 0; x < d_gsize[i][0]; x++) {
                    int mx = gx0 + x, my = gy0 + y;
                    if (mx < 0 || my < 0 || mx >= w || my >= h) continue;
                    uint32_t p = d_glyph_pix(i, gfi[i], x, y); uint8_t ch[4];
                    if (gfi[i] == 0) ch[0] = ch[1] = ch[2] = ch[3] = p ? 0xff : 0;
                    else if (gfi[i] == 1) ch[0] = ch[1] = ch[2] = ch[3] = (uint8_t)p;
                    else { ch[0] = (uint8_t)(p >> 24); ch[1] = (uint8_t)(p >> 16); ch[2] = (uint8_t)(p >> 8); ch[3] = (uint8_t)p; }
                    for (int q = 0; q < 4; q++) {
                        int cur = acc[my][mx][q];
                        if (mf == PIXMAN_a1) cur = cur >= 0x80 ? 0xff : 0;     /* an a1 mask holds one bit between glyphs */
                        int s = cur + ch[q]; acc[my][mx][q] = (uint8_t)(s > 255 ? 255 : s);
                        if (mf == PIXMAN_a1) acc[my][mx][q] = acc[my][mx][q] >= 0x80 ? 0xff : 0;
                    }
                }
            }
            for (int y = 0; y < h; y++) for (int x = 0; x < w; x++) {
                uint8_t *a = acc[y][x];
                uint32_t val = mf == PIXMAN_a8r8g8b8 ? (uint32_t)a[0] << 24 | (uint32_t)a[1] << 16 | (uint32_t)a[2] << 8 | a[3] : mf == PIXMAN_a8 ? a[0] : (a[0] >= 0x80);
                d_put(mbuf, msw, mf, x, y, val);
            }
            pixman_image_t *m = pixman_image_create_bits(mf, w, h, mbuf, msw * 4);
            if (PIXMAN_FORMAT_A(mf) && PIXMAN_FORMAT_RGB(mf)) pixman_image_set_component_alpha(m, 1);
            /* cross-check of the hand-made mask: the route through composite32 (ADD, white, glyph, mask) */
            {
                pixman_image_t *m2 = pixman_image_create_bits(mf, w, h, mbuf2, msw * 4);
                pixman_color_t white = { 0xffff, 0xffff, 0xffff, 0xffff }; pixman_image_t *wi = pixman_image_create_solid_fill(&white);
                for (int i = 0; i < n; i++) {
                    pixman_image_composite32(PIXMAN_OP_ADD, wi, gimg[i], m2, 0, 0, 0, 0, (bx[i] - dest_x) - mask_x, (by[i] - dest_y) - mask_y, d_gsize[i][0], d_gsize[i][1]);
                    vf_count_libcalls(1);
                }
                pixman_image_unref(wi); pixman_image_unref(m2);
                for (int y = 0; y < h && !vf_failed(); y++) for (int x = 0; x < w; x++) {
                    uint32_t a, b;
                    if (mf == PIXMAN_a8r8g8b8) { a = mbuf[y * msw + x]; b = mbuf2[y * msw + x]; }
                    else if (mf == PIXMAN_a8) { a = ((uint8_t *)(mbuf + y * msw))[x]; b = ((uint8_t *)(mbuf2 + y * msw))[x]; }
                    else { a = mbuf[y * msw] >> x & 1; b = mbuf2[y * msw] >> x & 1; }
                    if (a != b) { vf_violation("c17-draw-mask-reference-routes-disagree", "%s: mask pixel (%d,%d): saturating-add model %#x, composite32(ADD, white, glyph) %#x", desc, x, y, a, b); break; }
                }
            }
            pixman_image_composite32(op, s2, m, dr_img, sxx, syy, 0, 0, ddx, ddy, w, h);
            vf_count_libcalls(1);
            pixman_image_unref(m);
        }
        if (!vf_failed() && memcmp(lib, ref, sizeof(uint32_t) * sw * DH)) {
            int at = 0; for (int i = 0; i < sw * DH; i++) if (lib[i] != ref[i]) { at = i; break; }
            /* Recorded finding: pixman_composite_glyphs_no_mask hands the operator to the implementation lookup as given, while pixman_image_composite32 first
             * reduces it (optimize_operator: DISJOINT_SRC -> SRC, CONJOINT_OVER with an opaque pair -> SRC, ...).  For the DISJOINT / CONJOINT families the
             * unreduced operator is evaluated in floating point and the reduced one in 8-bit integers, which may differ by one step per channel.  Classified as
             * that finding only if: no_mask entry point, operator of those two families, a8r8g8b8 destination, every channel within one step. */
            int onestep = api == 0 && df == PIXMAN_a8r8g8b8 && (unsigned)op >= 0x10 && (unsigned)op <= 0x2b;
            for (int i = 0; i < sw * DH && onestep; i++) for (int sh = 0; sh < 32; sh += 8) { int a = (int)(lib[i] >> sh & 255), b = (int)(ref[i] >> sh & 255); if (a - b > 1 || b - a > 1) onestep = 0; }
            if (onestep) vf_violation("c17-no-mask-float-operator-not-reduced-one-step", "%s: destination word %d (row %d) is %#010x, per-glyph composite32 gives %#010x: one step per channel at most", desc, at, at / sw, lib[at], ref[at]);
            else
            vf_violation(api == 0 ? "c17-draw-no-mask-differs" : "c17-draw-mask-differs", "%s: destination word %d (row %d) is %#010x, per-glyph reference %#010x (initial %#010x)", desc, at, at / sw, lib[at], ref[at], init[at]);
        }
        vf_count_eval(1);
        if (memcmp(ref, init, sizeof(uint32_t) * sw * DH)) vf_count_nontrivial(1);
        if (!vf_in_confirm) vf_outcome(vf_hash64(ref, sizeof(uint32_t) * sw * DH, (uint64_t)dfi));
        if (vf_want_sample() && !vf_in_confirm && n == c->nglyph && n >= 2 && api && memcmp(ref, init, sizeof(uint32_t) * sw * DH)) vf_sample("%s -> dest[0..1]=%#x,%#x", desc, ref[0], ref[1]);
        pixman_image_unref(s1); pixman_image_unref(s2); pixman_image_unref(dl_img); pixman_image_unref(dr_img);
    }
out_cache:
    for (int i = 0; i < n; i++) pixman_glyph_cache_remove(d_cache, (void *)(uintptr_t)0x77, (void *)(uintptr_t)(i + 1));
    pixman_glyph_cache_thaw(d_cache);
    for (int i = 0; i < n; i++) pixman_image_unref(gimg[i]);
}

/* mask format helper: least format that can hold all glyphs */
static void d_maskfmt_case(uint64_t idx, void *vctx)
{
    (void)vctx;
    int dims[4] = { 4, 3, 3, 3 }, v[4]; vf_decode(idx, dims, 4, v);
    int n = v[0];
    pixman_glyph_cache_t *cache = pixman_glyph_cache_create();
    pixman_glyph_cache_freeze(cache);
    pixman_glyph_t pg[3]; uint32_t buf[4] = { 0, 0, 0, 0 };
    pixman_format_code_t want = PIXMAN_a1;
    for (int i = 0; i < n; i++) {
        pixman_format_code_t f = d_gf[v[1 + i]];
        pixman_image_t *im = pixman_image_create_bits(f, 1, 1, buf, 4);
        pg[i].x = pg[i].y = 0; pg[i].glyph = pixman_glyph_cache_insert(cache, (void *)1, (void *)(uintptr_t)(i + 1), 0, 0, im);
        pixman_image_unref(im);
        if (f == PIXMAN_a8r8g8b8) want = PIXMAN_a8r8g8b8; else if (f == PIXMAN_a8 && want == PIXMAN_a1) want = PIXMAN_a8;
    }
    pixman_format_code_t got = pixman_glyph_get_mask_format(cache, n, pg);
    vf_count_libcalls(1); vf_count_eval(1); if (n) vf_count_nontrivial(1);
    if (got != want) vf_violation("c17-draw-mask-format", "get_mask_format over %d glyphs (%s,%s,%s) returned %#x, expected %#x", n, d_gfname[v[1]], d_gfname[v[2]], d_gfname[v[3]], got, want);
    pixman_glyph_cache_thaw(cache);
    pixman_glyph_cache_destroy(cache);
}

#endif
