/* C16 companion: the same thread bodies as c16_sched.c, free-running under ThreadSanitizer (library and harness
 * built with -fsanitize=thread).  A cooperative scheduler's hand-offs are happens-before edges that would blind a
 * race detector, so this pass has no scheduler at all.  Not exhaustive — it is the net for plain data races inside
 * a basic block; the deciding exploration is c16_sched.c. */
#include "c16_bodies.h"
#include <pthread.h>
#include <stdio.h>

#define NTHREADS 16
static pixman_image_t *shared, *shared_grad, *shared_clipped, *shared_acc, *shared_tile, *shared_solid;
static uint32_t tile8[2 * TILE_STRIDE_WORDS], tile16[2 * TILE_STRIDE_WORDS];
static pthread_barrier_t bar;
static int rounds = 40;

static void *worker(void *v)
{
    int tid = (int)(intptr_t)v;
    for (int r = 0; r < rounds; r++) {
        tctx_t t; body_setup(&t, tid % 3, shared); t.tid = tid % 3; t.shared_grad = shared_grad; t.shared_clipped = shared_clipped; t.shared_acc = shared_acc; t.shared_tile = shared_tile; t.shared_solid = shared_solid; t.tile8 = tile8; t.tile16 = tile16; t.tile_ix = tid;
        pthread_barrier_wait(&bar);
        for (int k = 0; k < N_ALL_OPS; k++) body_run(&t, (k + tid + r) % N_ALL_OPS);
        body_teardown(&t);
    }
    return NULL;
}

int main(int argc, char **argv)
{
    if (argc > 1) rounds = atoi(argv[1]);
    static uint32_t pix[DH][DW];
    for (int y = 0; y < DH; y++) for (int x = 0; x < DW; x++) pix[y][x] = 0x90603010u + (unsigned)(x + 3 * y) * 0x04030201u;
    shared = pixman_image_create_bits(PIXMAN_a8r8g8b8, DW, DH, &pix[0][0], DW * 4);
    uint32_t tmp[DH][DW] = { { 0 } };
    pixman_image_t *d = pixman_image_create_bits(PIXMAN_a8r8g8b8, DW, DH, &tmp[0][0], DW * 4);
    pixman_image_composite32(PIXMAN_OP_OVER, shared, NULL, d, 0, 0, 0, 0, 0, 0, DW, DH);   /* first use on the main thread */
    shared_grad = body_make_shared_gradient();
    pixman_image_composite32(PIXMAN_OP_SRC, shared_grad, NULL, d, 0, 0, 0, 0, 0, 0, DW, DH);
    static uint32_t cpix[DW * DH];
    shared_clipped = body_make_shared_clipped(cpix);
    pixman_image_composite32(PIXMAN_OP_OVER, shared_clipped, NULL, d, 1, 0, 0, 0, 0, 0, DW, DH);
    static uint32_t tpix[64]; static uint32_t twide[2][40];
    shared_tile = body_make_shared_tile(tpix);
    { pixman_image_t *dw = pixman_image_create_bits(PIXMAN_a8r8g8b8, 40, 2, &twide[0][0], 160); pixman_image_composite32(PIXMAN_OP_SRC, shared_tile, NULL, dw, 3, 0, 0, 0, 0, 0, 40, 2); pixman_image_unref(dw); }
    static uint32_t apix[DW * DH];
    shared_acc = body_make_shared_acc(apix);
    pixman_image_composite32(PIXMAN_OP_OVER, shared_acc, NULL, d, 0, 0, 0, 0, 0, 0, DW, DH);
    { pixman_color_t c = { 0x8000, 0x4000, 0x2000, 0xc000 }; shared_solid = pixman_image_create_solid_fill(&c);
      pixman_image_composite32(PIXMAN_OP_ATOP, shared_solid, NULL, d, 0, 0, 0, 0, 0, 0, DW, DH); }        /* first use on the main thread, 3 pixels wide */
    pixman_image_unref(d);
    pthread_barrier_init(&bar, NULL, NTHREADS);
    pthread_t th[NTHREADS];
    for (int i = 0; i < NTHREADS; i++) pthread_create(&th[i], NULL, worker, (void *)(intptr_t)i);
    for (int i = 0; i < NTHREADS; i++) pthread_join(th[i], NULL);
    int refs_bad = 0;
    if (!pixman_image_unref(shared)) refs_bad |= 1;
    if (!pixman_image_unref(shared_grad)) refs_bad |= 2;
    if (!pixman_image_unref(shared_clipped)) refs_bad |= 4;
    if (!pixman_image_unref(shared_acc)) refs_bad |= 8;
    if (!pixman_image_unref(shared_tile)) refs_bad |= 16;
    if (!pixman_image_unref(shared_solid)) refs_bad |= 32;
    if (refs_bad) printf("SHARED-IMAGE-STILL-REFERENCED mask=%d (the harness held the only reference to each shared image)\n", refs_bad);
    printf("TSAN-PASS-DONE threads=%d rounds=%d ops=%d\n", NTHREADS, rounds, NTHREADS * rounds * N_ALL_OPS);
    return 0;
}
