/* c17_bfs.h — level-synchronous explicit-state BFS on top of vf_space_run (engine E2).
 * Shared by c17_glyph.c and c20_lifetime.c.
 *
 * A state is represented by the operation history that reaches it (parent pointer + op);
 * it is rebuilt by replay on fresh library objects every time one of its transitions is
 * evaluated.  One vf case == one transition (state, op): the user's transition function
 * replays the history, checks that the rebuilt state has the canonical id recorded when
 * the state was discovered (replay determinism, hard error otherwise), applies `op` under
 * the oracle and returns the canonical id of the successor.  The parent process owns the
 * visited set: after every level it de-duplicates the successors and forms the next
 * frontier; the search ends at the fixpoint (empty frontier) or at a stated cap.
 *
 * Canonical ids are exact 64-bit packings of the canonical form (no hashing, so no
 * collisions to argue about).
 */
#ifndef C17_BFS_H
#define C17_BFS_H
#include "vf.h"

#define BFS_MAXDEPTH 60

enum { BFS_NOTRUN = 0, BFS_DISABLED = 1, BFS_OK = 2, BFS_PRUNED = 3 };

typedef struct { uint64_t canon; uint32_t parent; uint16_t op; uint16_t depth; } bfs_node;

typedef struct bfs bfs_t;
/* returns BFS_DISABLED (op not enabled in this state), BFS_OK (*succ valid) or BFS_PRUNED
 * (a violation was raised on this transition and the successor must not be explored) */
typedef int (*bfs_trans_fn)(bfs_t *b, const uint16_t *hist, int len, uint64_t canon, int op, uint64_t *succ);

struct bfs {
    const char *name;            /* space name prefix, e.g. "cache-small" */
    int nops;
    int max_depth;               /* cap on depth (levels expanded); reported when hit */
    uint64_t max_states;         /* cap on states */
    bfs_trans_fn trans;
    void *user;
    /* visited set + nodes (parent memory; workers see a fork-time snapshot) */
    bfs_node *nodes; uint64_t nnodes, cap;
    uint64_t *hk; uint32_t *hv; int hbits;
    uint32_t *frontier; uint64_t nfront;
    /* worker -> parent results of the current level (shared mapping) */
    uint64_t *out_canon; uint8_t *out_status; uint64_t out_cap;
    /* statistics */
    uint64_t per_depth[BFS_MAXDEPTH + 2]; uint64_t trans_per_depth[BFS_MAXDEPTH + 2];
    uint64_t transitions, pruned, selfloops;
    int depth_reached, fixpoint, capped;
};

static int bfs_lookup(bfs_t *b, uint64_t canon, int insert_idx)
{
    uint64_t mask = ((uint64_t)1 << b->hbits) - 1, i = vf_mix(canon, 0x5bd1e995) & mask;
    for (;; i = (i + 1) & mask) {
        if (b->hv[i] == 0) {
            if (insert_idx >= 0) { b->hk[i] = canon; b->hv[i] = (uint32_t)insert_idx + 1; }
            return -1;
        }
        if (b->hk[i] == canon) return (int)b->hv[i] - 1;
    }
}

static int bfs_history(const bfs_t *b, uint32_t node, uint16_t *hist)
{
    int len = b->nodes[node].depth;
    uint32_t n = node;
    for (int i = len - 1; i >= 0; i--) { hist[i] = b->nodes[n].op; n = b->nodes[n].parent; }
    return len;
}

static void bfs_case(uint64_t idx, void *ctx)
{
    bfs_t *b = ctx;
    uint64_t fi = idx / (uint64_t)b->nops; int op = (int)(idx % (uint64_t)b->nops);
    uint32_t node = b->frontier[fi];
    uint16_t hist[BFS_MAXDEPTH + 2];
    int len = bfs_history(b, node, hist);
    uint64_t succ = 0;
    int st = b->trans(b, hist, len, b->nodes[node].canon, op, &succ);
    b->out_canon[idx] = succ;
    b->out_status[idx] = (uint8_t)st;
    vf_count_eval(1);
    if (st == BFS_OK || st == BFS_PRUNED) {
        vf_count_transitions(1);
        if (st == BFS_OK && succ != b->nodes[node].canon) vf_count_nontrivial(1);
        if (!vf_in_confirm) vf_outcome(vf_mix(vf_mix(b->nodes[node].canon, (uint64_t)op + 1), succ));
    }
}

static void bfs_init(bfs_t *b, const char *name, int nops, int max_depth, uint64_t max_states, bfs_trans_fn trans, void *user, uint64_t init_canon)
{
    memset(b, 0, sizeof *b);
    b->name = name; b->nops = nops; b->max_depth = max_depth > BFS_MAXDEPTH ? BFS_MAXDEPTH : max_depth;
    b->max_states = max_states; b->trans = trans; b->user = user;
    b->cap = max_states + 16;
    b->nodes = calloc(b->cap, sizeof *b->nodes);
    b->hbits = 4; while (((uint64_t)1 << b->hbits) < b->cap * 2) b->hbits++;
    b->hk = calloc((size_t)1 << b->hbits, sizeof *b->hk);
    b->hv = calloc((size_t)1 << b->hbits, sizeof *b->hv);
    b->frontier = calloc(b->cap, sizeof *b->frontier);
    b->out_cap = b->cap * (uint64_t)nops;
    b->out_canon = mmap(NULL, b->out_cap * sizeof(uint64_t), PROT_READ | PROT_WRITE, MAP_SHARED | MAP_ANONYMOUS | MAP_NORESERVE, -1, 0);
    b->out_status = mmap(NULL, b->out_cap, PROT_READ | PROT_WRITE, MAP_SHARED | MAP_ANONYMOUS | MAP_NORESERVE, -1, 0);
    if (!b->nodes || !b->hk || !b->hv || !b->frontier || b->out_canon == MAP_FAILED || b->out_status == MAP_FAILED) { perror("bfs alloc"); exit(2); }
    b->nodes[0].canon = init_canon; b->nodes[0].parent = 0; b->nodes[0].op = 0; b->nodes[0].depth = 0;
    b->nnodes = 1; bfs_lookup(b, init_canon, 0);
    b->frontier[0] = 0; b->nfront = 1; b->per_depth[0] = 1;
    vf_count_states(1);
}

static void bfs_free(bfs_t *b)
{
    free(b->nodes); free(b->hk); free(b->hv); free(b->frontier);
    munmap(b->out_canon, b->out_cap * sizeof(uint64_t)); munmap(b->out_status, b->out_cap);
}

/* Run to the fixpoint (or cap / deadline).  In --replay mode the levels before the one named
 * in the replay file are rebuilt in-process (quietly), the named level is handed to the engine
 * (which re-executes the recorded transition twice), and the search stops there. */
static void bfs_run(bfs_t *b)
{
    size_t plen = strlen(b->name);
    if (vf_replaying() && (strncmp(vf_replay_space, b->name, plen) || vf_replay_space[plen] != '-')) return;
    for (int depth = 0; ; depth++) {
        if (b->nfront == 0) { b->fixpoint = 1; break; }
        if (depth >= b->max_depth) {
            b->capped = 1;
            if (!vf_replaying()) vf_cap("%s: depth cap %d reached with %llu unexpanded states (not a fixpoint)", b->name, b->max_depth, (unsigned long long)b->nfront);
            break;
        }
        char nm[64]; snprintf(nm, sizeof nm, "%s-d%02d", b->name, depth);
        uint64_t N = b->nfront * (uint64_t)b->nops;
        memset(b->out_status, 0, N);
        int complete = 1;
        if (vf_replaying() && strcmp(nm, vf_replay_space)) {
            int v = vf_verbose; vf_verbose = 0;
            for (uint64_t i = 0; i < N; i++) { vf_pending = 0; vf_in_confirm = 1; bfs_case(i, b); vf_pending = 0; vf_in_confirm = 0; }
            vf_verbose = v;
        } else {
            complete = vf_space_run(nm, N, bfs_case, b);
            if (vf_replaying()) return;
        }
        b->depth_reached = depth;
        if (!complete) { b->capped = 1; break; }   /* deadline or too many violations: the engine recorded the cap */
        /* parent-side de-duplication */
        uint64_t nnext = 0; uint64_t first_new = b->nnodes; int overflow = 0;
        for (uint64_t fi = 0; fi < b->nfront && !overflow; fi++) {
            uint32_t node = b->frontier[fi];
            for (int op = 0; op < b->nops; op++) {
                uint64_t k = fi * (uint64_t)b->nops + (uint64_t)op;
                int st = b->out_status[k];
                if (st == BFS_PRUNED) { b->pruned++; b->transitions++; b->trans_per_depth[depth]++; continue; }
                if (st != BFS_OK) continue;
                b->transitions++; b->trans_per_depth[depth]++;
                uint64_t c = b->out_canon[k];
                if (c == b->nodes[node].canon) b->selfloops++;
                if (bfs_lookup(b, c, -1) >= 0) continue;
                if (b->nnodes >= b->max_states) { overflow = 1; break; }
                bfs_node *n = &b->nodes[b->nnodes];
                n->canon = c; n->parent = node; n->op = (uint16_t)op; n->depth = (uint16_t)(depth + 1);
                bfs_lookup(b, c, (int)b->nnodes);
                b->nnodes++; nnext++;
            }
        }
        if (overflow) {
            b->capped = 1;
            vf_cap("%s: state cap %llu reached at depth %d (not a fixpoint)", b->name, (unsigned long long)b->max_states, depth + 1);
            break;
        }
        for (uint64_t i = 0; i < nnext; i++) b->frontier[i] = (uint32_t)(first_new + i);
        b->nfront = nnext;
        b->per_depth[depth + 1] = nnext;
        if (!vf_replaying()) vf_count_states(nnext);
    }
}

/* `./run replay` does not pass --tier: take it from the replay file so that the same bounds (hence the same frontier order) are rebuilt */
static void bfs_replay_adopt_tier(void)
{
    if (!vf_replaying()) return;
    FILE *f = fopen(vf_replay_file, "r"); if (!f) return;
    char line[256];
    while (fgets(line, sizeof line, f)) if (!strncmp(line, "tier ", 5)) vf_thorough = !strncmp(line + 5, "thorough", 8);
    fclose(f);
}

/* append `"name": {...}` statistics to the evidence's extra_json */
static void bfs_report(const bfs_t *b, const char *label)
{
    char buf[1200]; size_t l = 0;
    int maxd = 0; for (int d = 0; d <= BFS_MAXDEPTH; d++) if (b->per_depth[d]) maxd = d;
    l += snprintf(buf + l, sizeof buf - l, "\"%s\": {\"states\": %llu, \"transitions\": %llu, \"self_loops\": %llu, \"pruned_after_violation\": %llu, \"max_depth\": %d, \"fixpoint\": %s, \"new_states_per_depth\": [",
                  label, (unsigned long long)b->nnodes, (unsigned long long)b->transitions, (unsigned long long)b->selfloops, (unsigned long long)b->pruned, maxd, b->fixpoint ? "true" : "false");
    for (int d = 0; d <= maxd && l + 32 < sizeof buf; d++) l += snprintf(buf + l, sizeof buf - l, "%s%llu", d ? "," : "", (unsigned long long)b->per_depth[d]);
    l += snprintf(buf + l, sizeof buf - l, "]}");
    size_t cur = strlen(vf->extra_json);
    if (cur + l + 4 < sizeof vf->extra_json) snprintf(vf->extra_json + cur, sizeof vf->extra_json - cur, "%s%s", cur ? ",\n  " : "", buf);
    printf("BFS %s: states=%llu transitions=%llu max_depth=%d fixpoint=%d per_depth=[", label, (unsigned long long)b->nnodes, (unsigned long long)b->transitions, maxd, b->fixpoint);
    for (int d = 0; d <= maxd; d++) printf("%s%llu", d ? "," : "", (unsigned long long)b->per_depth[d]);
    printf("]\n");
}

#endif
