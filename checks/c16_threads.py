#!/usr/bin/env python3
"""C16 orchestration: (1) the exhaustive schedule exploration (c16_sched.c, 'sched' library build) decides the property and
writes the evidence; (2) the same thread bodies run free under ThreadSanitizer ('tsan' library build) as the net for plain
data races inside a basic block.  Exit 1 if either reports."""
import json, os, subprocess, sys
VERIF = os.path.dirname(os.path.dirname(os.path.abspath(__file__)))
sys.path.insert(0, os.path.join(VERIF, "engine"))
import build

args = sys.argv[1:]
known = os.environ.get("VERIF_KNOWN", "")
thorough = ("--tier" in args and args[args.index("--tier") + 1] == "thorough") or os.environ.get("VERIF_TIER") == "thorough"
replay = "--replay" in args

sched = build.build_check("C16", os.path.join(VERIF, "checks", "c16_sched.c"), "sched",
                          extra_cflags=["-O1", "-fno-sanitize-coverage=trace-pc-guard"], extra_ldflags=["-no-pie"])
cmd = [sched] + args + (["--known", known] if known else [])
rc = subprocess.call(cmd)
if replay:
    sys.exit(rc)

tsan = build.build_check("C16tsan", os.path.join(VERIF, "checks", "c16_tsan.c"), "tsan", extra_cflags=["-O1"])
env = dict(os.environ, TSAN_OPTIONS="halt_on_error=0:exitcode=66:report_signal_unsafe=0")
logdir = os.path.join(VERIF, "build", "logs"); os.makedirs(logdir, exist_ok=True)
log = os.path.join(logdir, "C16-tsan.log")
rounds = "400" if thorough else "60"
with open(log, "w") as f:
    p = subprocess.run([tsan, rounds], stdout=subprocess.PIPE, stderr=f, text=True, env=env)
out = p.stdout.strip()
txt = open(log).read()
nrep = txt.count("WARNING: ThreadSanitizer")
print(out if out else "TSAN pass produced no completion line")
# (3) hand-off histories: non-overlapping use of one image by two threads must equal the same history on one thread (c16_handoff.c)
handoff = build.build_check("C16handoff", os.path.join(VERIF, "checks", "c16_handoff.c"), "opt", extra_cflags=["-O1"])
hp = subprocess.run([handoff, "4" if thorough else "3"], stdout=subprocess.PIPE, stderr=subprocess.STDOUT, text=True)
hout = hp.stdout.strip()
hdone = [l for l in hout.splitlines() if l.startswith("HANDOFF-DONE")]
print(hdone[0] if hdone else "hand-off pass produced no completion line")
# static inventory of writable globals (informational: the dynamic exploration decides)
allow = set()
for line in open(os.path.join(VERIF, "checks", "c16_globals_allow.txt")):
    if line.startswith("#") or not line.strip():
        continue
    for tok in line.split("   ")[0].split():
        allow.add(tok)
lib, _ = build.build_lib("opt")
nm = subprocess.run(["nm", lib], stdout=subprocess.PIPE, stderr=subprocess.DEVNULL, text=True).stdout
writable = sorted({l.split()[2] for l in nm.splitlines() if len(l.split()) == 3 and l.split()[1] in "bBdD"})
import re
norm = lambda n: re.sub(r"\.\d+$", "", n)
new_globals = [w for w in writable if w not in allow and norm(w) not in {norm(a) for a in allow}]
if new_globals:
    print("NOTE C16: writable library globals not in checks/c16_globals_allow.txt: %s" % " ".join(new_globals))
evpath = os.path.join(os.environ.get("VERIF_EVIDENCE_DIR", os.path.join(VERIF, "evidence")), "C16.json")
for i, a in enumerate(args):
    if a == "--evidence":
        evpath = args[i + 1]
try:
    ev = json.load(open(evpath))
    ev["coverage"]["writable_globals_inventory"] = {"count": len(writable), "not_in_allow_list": new_globals}
    ev["coverage"]["tsan_free_running_pass"] = {"threads": 16, "rounds": int(rounds), "reports": nrep, "exit": p.returncode, "completed": "TSAN-PASS-DONE" in out}
    hm = re.search(r"len=(\d+) steps=(\d+) histories=(\d+) executions=(\d+) distinct_outcomes>=(\d+) mismatches=(\d+)", hdone[0]) if hdone else None
    ev["coverage"]["handoff_histories"] = {"completed": bool(hdone), "length": int(hm.group(1)) if hm else 0, "step_alphabet": int(hm.group(2)) if hm else 0, "histories": int(hm.group(3)) if hm else 0,
                                           "executions(histories x thread assignments)": int(hm.group(4)) if hm else 0, "distinct_outcomes_at_least": int(hm.group(5)) if hm else 0,
                                           "mismatches": int(hm.group(6)) if hm else -1,
                                           "rule": "every history of that many steps over the alphabet (draw; another draw elsewhere; set_transform x3 / set_filter / set_repeat / reset / destroy-and-recreate / client clip, each followed by the same draw) "
                                                   "x every assignment of the steps to two threads, executed with a strict hand-off; destination digest after every step equals the one-thread execution"}
    json.dump(ev, open(evpath, "w"), indent=1)
except Exception as e:
    print("could not annotate evidence:", e)
if nrep or p.returncode != 0 or "TSAN-PASS-DONE" not in out or "SHARED-IMAGE-STILL-REFERENCED" in out:
    rp = os.path.join(VERIF, "replays", "C16"); os.makedirs(rp, exist_ok=True)
    rfile = os.path.join(rp, "tsan-report.txt")
    open(rfile, "w").write("check C16\nkey c16-tsan-data-race\nspace tsan\ncase %s\ndetail %d ThreadSanitizer report(s), exit %d; first lines:\n%s\n" % (rounds, nrep, p.returncode, txt[:3000]))
    print("VIOLATION property=C16 replay=%s\n  key=c16-tsan-data-race: %d ThreadSanitizer report(s) in the free-running pass (exit %d), see %s" % (rfile, nrep, p.returncode, log))
    rc = 1
if hp.returncode != 0 or not hdone or "HANDOFF-MISMATCH" in hout:
    rp = os.path.join(VERIF, "replays", "C16"); os.makedirs(rp, exist_ok=True)
    rfile = os.path.join(rp, "handoff-report.txt")
    first = [l for l in hout.splitlines() if l.startswith("HANDOFF-MISMATCH")][:5]
    open(rfile, "w").write("check C16\nkey c16-handoff-result-differs\nspace handoff\ncase %s\ndetail %s\n" % ("4" if thorough else "3", "\n".join(first) if first else hout[:2000]))
    print("VIOLATION property=C16 replay=%s\n  key=c16-handoff-result-differs: %s" % (rfile, (first[0] + ("" if hdone else " [and the pass then ended with exit %d]" % hp.returncode)) if first else "the hand-off pass did not complete (exit %d)" % hp.returncode))
    rc = 1
sys.exit(rc)
