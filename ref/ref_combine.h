/* ref_combine.h — reference model of the Render / PDF compositing equations.
 * Written from the specifications (X Render protocol: Porter-Duff, disjoint/conjoint; PDF 32000-1 11.3.5/11.3.6
 * for the blend modes), independent of pixman's combiner code.
 *
 *   rc_exact_pixel()  exact 8-bit rule: each product rounded to nearest in units of 1/255, sums saturating.
 *   rc_real_pixel()   real-valued result in long double, premultiplied inputs in [0,1] (or beyond, unclamped).
 */
#ifndef REF_COMBINE_H
#define REF_COMBINE_H
#include <math.h>
#include <stdint.h>
#include <pixman.h>

enum { RC_MASK_NONE, RC_MASK_UNIFIED, RC_MASK_CA };

static inline unsigned rc_mul(unsigned a, unsigned b) { return (2 * a * b + 255) / 510; }   /* round(a*b/255); no ties exist */

/* Porter-Duff factor kinds */
enum { F_0, F_1, F_SA, F_DA, F_ISA, F_IDA };
static const struct { int fa, fb; } rc_pd[13] = {
    /* CLEAR */ { F_0, F_0 }, /* SRC */ { F_1, F_0 }, /* DST */ { F_0, F_1 }, /* OVER */ { F_1, F_ISA }, /* OVER_REVERSE */ { F_IDA, F_1 },
    /* IN */ { F_DA, F_0 }, /* IN_REVERSE */ { F_0, F_SA }, /* OUT */ { F_IDA, F_0 }, /* OUT_REVERSE */ { F_0, F_ISA },
    /* ATOP */ { F_DA, F_ISA }, /* ATOP_REVERSE */ { F_IDA, F_SA }, /* XOR */ { F_IDA, F_ISA }, /* ADD */ { F_1, F_1 } };

static inline int rc_is_exact_op(int op) { return op >= PIXMAN_OP_CLEAR && op <= PIXMAN_OP_ADD; }

static inline unsigned rc_factor8(int kind, unsigned sa, unsigned da)
{
    switch (kind) { case F_0: return 0; case F_1: return 255; case F_SA: return sa; case F_DA: return da; case F_ISA: return 255 - sa; default: return 255 - da; }
}

/* s, m, d: a8r8g8b8 values (m ignored for RC_MASK_NONE; only its alpha used for RC_MASK_UNIFIED) */
static inline uint32_t rc_exact_pixel(int op, int mode, uint32_t s, uint32_t m, uint32_t d)
{
    unsigned sa = s >> 24, da = d >> 24, ma = m >> 24;
    uint32_t out = 0;
    for (int sh = 24; sh >= 0; sh -= 8) {
        unsigned sc = (s >> sh) & 0xff, dc = (d >> sh) & 0xff, mc = (m >> sh) & 0xff;
        unsigned seff, saeff;           /* masked source channel, and the source alpha that applies to this channel */
        if (mode == RC_MASK_NONE) { seff = sc; saeff = sa; }
        else if (mode == RC_MASK_UNIFIED) { seff = rc_mul(sc, ma); saeff = rc_mul(sa, ma); }
        else { seff = rc_mul(sc, mc); saeff = rc_mul(mc, sa); }
        unsigned fa = rc_factor8(rc_pd[op].fa, saeff, da), fb = rc_factor8(rc_pd[op].fb, saeff, da);
        unsigned r = rc_mul(seff, fa) + rc_mul(dc, fb);
        if (r > 255) r = 255;
        out |= (uint32_t)r << sh;
    }
    return out;
}

/* ------------------------------------------------------------------------------------------------ */
/* real-valued model */
typedef long double rc_real;

static inline rc_real rc_clamp01(rc_real x) { return x < 0 ? 0 : x > 1 ? 1 : x; }

/* disjoint / conjoint factor helpers, Render conventions for x/0 */
static rc_real rc_sa_over_da(rc_real sa, rc_real da)        { return da == 0 ? 1 : rc_clamp01(sa / da); }
static rc_real rc_da_over_sa(rc_real sa, rc_real da)        { return sa == 0 ? 1 : rc_clamp01(da / sa); }
static rc_real rc_isa_over_da(rc_real sa, rc_real da)       { return da == 0 ? 1 : rc_clamp01((1 - sa) / da); }
static rc_real rc_ida_over_sa(rc_real sa, rc_real da)       { return sa == 0 ? 1 : rc_clamp01((1 - da) / sa); }
static rc_real rc_1m_sa_over_da(rc_real sa, rc_real da)     { return da == 0 ? 0 : rc_clamp01(1 - sa / da); }
static rc_real rc_1m_da_over_sa(rc_real sa, rc_real da)     { return sa == 0 ? 0 : rc_clamp01(1 - da / sa); }
static rc_real rc_1m_ida_over_sa(rc_real sa, rc_real da)    { return sa == 0 ? 0 : rc_clamp01(1 - (1 - da) / sa); }
static rc_real rc_1m_isa_over_da(rc_real sa, rc_real da)    { return da == 0 ? 0 : rc_clamp01(1 - (1 - sa) / da); }

/* Fa, Fb for every Porter-Duff style operator (plain, saturate, disjoint, conjoint). Returns 0 if op is not of that family. */
static int rc_pd_factors(int op, rc_real sa, rc_real da, rc_real *fa, rc_real *fb)
{
    if (op <= PIXMAN_OP_ADD) {
        static const int k[6] = { 0, 1, 2, 3, 4, 5 }; (void)k;
        rc_real f[6] = { 0, 1, sa, da, 1 - sa, 1 - da };
        *fa = f[rc_pd[op].fa]; *fb = f[rc_pd[op].fb];
        return 1;
    }
    if (op == PIXMAN_OP_SATURATE) { *fa = rc_ida_over_sa(sa, da); *fb = 1; return 1; }   /* min(1, (1-da)/sa) */
    if (op >= PIXMAN_OP_DISJOINT_CLEAR && op <= PIXMAN_OP_DISJOINT_XOR) {
        /* disjoint: "sa and da cover disjoint areas as far as possible":
         * the part of the source not covered by dest is min(1,(1-da)/sa); the part of it covered is max(0, 1-(1-da)/sa) */
        rc_real s_out = rc_ida_over_sa(sa, da), s_in = rc_1m_ida_over_sa(sa, da);
        rc_real d_out = rc_isa_over_da(sa, da), d_in = rc_1m_isa_over_da(sa, da);
        switch (op) {
        case PIXMAN_OP_DISJOINT_CLEAR: *fa = 0; *fb = 0; break;
        case PIXMAN_OP_DISJOINT_SRC: *fa = 1; *fb = 0; break;
        case PIXMAN_OP_DISJOINT_DST: *fa = 0; *fb = 1; break;
        case PIXMAN_OP_DISJOINT_OVER: *fa = 1; *fb = d_out; break;
        case PIXMAN_OP_DISJOINT_OVER_REVERSE: *fa = s_out; *fb = 1; break;
        case PIXMAN_OP_DISJOINT_IN: *fa = s_in; *fb = 0; break;
        case PIXMAN_OP_DISJOINT_IN_REVERSE: *fa = 0; *fb = d_in; break;
        case PIXMAN_OP_DISJOINT_OUT: *fa = s_out; *fb = 0; break;
        case PIXMAN_OP_DISJOINT_OUT_REVERSE: *fa = 0; *fb = d_out; break;
        case PIXMAN_OP_DISJOINT_ATOP: *fa = s_in; *fb = d_out; break;
        case PIXMAN_OP_DISJOINT_ATOP_REVERSE: *fa = s_out; *fb = d_in; break;
        default: *fa = s_out; *fb = d_out; break;   /* XOR */
        }
        return 1;
    }
    if (op >= PIXMAN_OP_CONJOINT_CLEAR && op <= PIXMAN_OP_CONJOINT_XOR) {
        /* conjoint: "sa and da overlap as far as possible": source part inside dest = min(1, da/sa), outside = max(0, 1-da/sa) */
        rc_real s_in = rc_da_over_sa(sa, da), s_out = rc_1m_da_over_sa(sa, da);
        rc_real d_in = rc_sa_over_da(sa, da), d_out = rc_1m_sa_over_da(sa, da);
        switch (op) {
        case PIXMAN_OP_CONJOINT_CLEAR: *fa = 0; *fb = 0; break;
        case PIXMAN_OP_CONJOINT_SRC: *fa = 1; *fb = 0; break;
        case PIXMAN_OP_CONJOINT_DST: *fa = 0; *fb = 1; break;
        case PIXMAN_OP_CONJOINT_OVER: *fa = 1; *fb = d_out; break;
        case PIXMAN_OP_CONJOINT_OVER_REVERSE: *fa = s_out; *fb = 1; break;
        case PIXMAN_OP_CONJOINT_IN: *fa = s_in; *fb = 0; break;
        case PIXMAN_OP_CONJOINT_IN_REVERSE: *fa = 0; *fb = d_in; break;
        case PIXMAN_OP_CONJOINT_OUT: *fa = s_out; *fb = 0; break;
        case PIXMAN_OP_CONJOINT_OUT_REVERSE: *fa = 0; *fb = d_out; break;
        case PIXMAN_OP_CONJOINT_ATOP: *fa = s_in; *fb = d_out; break;
        case PIXMAN_OP_CONJOINT_ATOP_REVERSE: *fa = s_out; *fb = d_in; break;
        default: *fa = s_out; *fb = d_out; break;   /* XOR */
        }
        return 1;
    }
    return 0;
}

/* Separable PDF blend functions, premultiplied form: returns  sa*da*B(d/da, s/sa). */
static rc_real rc_blend_sep(int op, rc_real sa, rc_real s, rc_real da, rc_real d)
{
    switch (op) {
    case PIXMAN_OP_MULTIPLY: return s * d;
    case PIXMAN_OP_SCREEN: return s * da + d * sa - s * d;
    case PIXMAN_OP_OVERLAY: return (2 * d < da) ? 2 * s * d : sa * da - 2 * (da - d) * (sa - s);
    case PIXMAN_OP_HARD_LIGHT: return (2 * s < sa) ? 2 * s * d : sa * da - 2 * (da - d) * (sa - s);
    case PIXMAN_OP_DARKEN: return fminl(s * da, d * sa);
    case PIXMAN_OP_LIGHTEN: return fmaxl(s * da, d * sa);
    case PIXMAN_OP_DIFFERENCE: return fabsl(s * da - d * sa);
    case PIXMAN_OP_EXCLUSION: return s * da + d * sa - 2 * s * d;
    case PIXMAN_OP_COLOR_DODGE:
        /* B = (Cb == 0) ? 0 : (Cb >= 1 - Cs) ? 1 : Cb / (1 - Cs), with Cb = d/da, Cs = s/sa */
        if (d == 0) return 0;
        if (d * sa >= da * (sa - s)) return sa * da;
        return sa * sa * d / (sa - s);
    case PIXMAN_OP_COLOR_BURN:
        /* B = (Cb >= 1) ? 1 : (1 - Cb >= Cs) ? 0 : 1 - (1 - Cb)/Cs */
        if (d >= da) return sa * da;
        if (sa * (da - d) >= s * da) return 0;
        if (s == 0) return 0;
        return sa * (da - sa * (da - d) / s);
    case PIXMAN_OP_SOFT_LIGHT: {
        /* B = Cs <= 1/2 ? Cb - (1-2Cs) Cb (1-Cb) : Cb + (2Cs-1)(D(Cb)-Cb), D(x) = x<=1/4 ? ((16x-12)x+4)x : sqrt(x) */
        if (da == 0) return d * sa;
        rc_real cb = d / da;
        if (2 * s <= sa) return d * sa - d * (1 - cb) * (sa - 2 * s);
        rc_real D = (4 * d <= da) ? ((16 * cb - 12) * cb + 4) * cb : sqrtl(cb);
        return d * sa + da * (D - cb) * (2 * s - sa);
    }
    }
    return 0;
}

/* non-separable helpers (PDF 11.3.5.3) on premultiplied triples */
static rc_real rc_lum(const rc_real c[3]) { return 0.3L * c[0] + 0.59L * c[1] + 0.11L * c[2]; }
static rc_real rc_min3(const rc_real c[3]) { return fminl(c[0], fminl(c[1], c[2])); }
static rc_real rc_max3(const rc_real c[3]) { return fmaxl(c[0], fmaxl(c[1], c[2])); }
static void rc_clip_color(rc_real c[3], rc_real a)
{
    rc_real l = rc_lum(c), n = rc_min3(c), x = rc_max3(c);
    if (n < 0) { rc_real t = l - n; for (int i = 0; i < 3; i++) c[i] = (t == 0) ? 0 : l + (c[i] - l) * l / t; }
    if (x > a) { rc_real t = x - l; for (int i = 0; i < 3; i++) c[i] = (t == 0) ? a : l + (c[i] - l) * (a - l) / t; }
}
static void rc_set_lum(rc_real c[3], rc_real a, rc_real l)
{
    rc_real dd = l - rc_lum(c);
    for (int i = 0; i < 3; i++) c[i] += dd;
    rc_clip_color(c, a);
}
static void rc_set_sat(rc_real c[3], rc_real sat)
{
    int mx = 0, mn = 0;
    for (int i = 1; i < 3; i++) { if (c[i] > c[mx]) mx = i; if (c[i] < c[mn]) mn = i; }
    if (mx == mn) { c[0] = c[1] = c[2] = 0; return; }
    int md = 3 - mx - mn;
    rc_real t = c[mx] - c[mn];
    c[md] = (c[md] - c[mn]) * sat / t; c[mx] = sat; c[mn] = 0;
}
static void rc_blend_hsl(int op, const rc_real s[3], rc_real sa, const rc_real d[3], rc_real da, rc_real out[3])
{
    rc_real sd[3] = { s[0] * da, s[1] * da, s[2] * da }, ds[3] = { d[0] * sa, d[1] * sa, d[2] * sa };
    rc_real sat_s = rc_max3(s) - rc_min3(s), sat_d = rc_max3(d) - rc_min3(d);
    switch (op) {
    case PIXMAN_OP_HSL_HUE:        for (int i = 0; i < 3; i++) out[i] = sd[i]; rc_set_sat(out, sat_d * sa); rc_set_lum(out, sa * da, rc_lum(d) * sa); break;
    case PIXMAN_OP_HSL_SATURATION: for (int i = 0; i < 3; i++) out[i] = ds[i]; rc_set_sat(out, sat_s * da); rc_set_lum(out, sa * da, rc_lum(d) * sa); break;
    case PIXMAN_OP_HSL_COLOR:      for (int i = 0; i < 3; i++) out[i] = sd[i]; rc_set_lum(out, sa * da, rc_lum(d) * sa); break;
    default:                       for (int i = 0; i < 3; i++) out[i] = ds[i]; rc_set_lum(out, sa * da, rc_lum(s) * da); break;  /* LUMINOSITY */
    }
}

static inline int rc_is_hsl(int op) { return op >= PIXMAN_OP_HSL_HUE && op <= PIXMAN_OP_HSL_LUMINOSITY; }
static inline int rc_is_sep_blend(int op) { return op >= PIXMAN_OP_MULTIPLY && op <= PIXMAN_OP_EXCLUSION; }

/* Whole pixel; arrays ordered a,r,g,b.  Result not clamped to [0,1] except where the equations clamp.
 * Returns 0 if the (op, mode) combination has no defined result (HSL with component alpha). */
static int rc_real_pixel(int op, int mode, const rc_real s[4], const rc_real m[4], const rc_real d[4], rc_real out[4])
{
    rc_real se[4], sae[4];   /* masked source, per-channel effective source alpha */
    for (int c = 0; c < 4; c++) {
        if (mode == RC_MASK_NONE) { se[c] = s[c]; sae[c] = s[0]; }
        else if (mode == RC_MASK_UNIFIED) { se[c] = s[c] * m[0]; sae[c] = s[0] * m[0]; }
        else { se[c] = s[c] * m[c]; sae[c] = m[c] * s[0]; }
    }
    rc_real da = d[0];
    rc_real fa, fb;
    if (rc_pd_factors(op, 0, 0, &fa, &fb)) {
        for (int c = 0; c < 4; c++) {
            rc_pd_factors(op, sae[c], da, &fa, &fb);
            rc_real r = se[c] * fa + d[c] * fb;
            out[c] = r > 1 ? 1 : r;
        }
        return 1;
    }
    if (rc_is_sep_blend(op)) {
        out[0] = sae[0] + da - sae[0] * da;
        for (int c = 1; c < 4; c++)
            out[c] = (1 - sae[c]) * d[c] + (1 - da) * se[c] + rc_blend_sep(op, sae[c], se[c], da, d[c]);
        return 1;
    }
    if (rc_is_hsl(op)) {
        if (mode == RC_MASK_CA) return 0;
        rc_real sa = sae[0], b[3];
        rc_blend_hsl(op, se + 1, sa, d + 1, da, b);
        out[0] = sa + da - sa * da;
        for (int c = 1; c < 4; c++) out[c] = (1 - sa) * d[c] + (1 - da) * se[c] + b[c - 1];
        return 1;
    }
    return 0;
}

static const char *rc_op_name(int op)
{
    switch (op) {
#define O(x) case PIXMAN_OP_##x: return #x;
    O(CLEAR) O(SRC) O(DST) O(OVER) O(OVER_REVERSE) O(IN) O(IN_REVERSE) O(OUT) O(OUT_REVERSE) O(ATOP) O(ATOP_REVERSE) O(XOR) O(ADD) O(SATURATE)
    O(DISJOINT_CLEAR) O(DISJOINT_SRC) O(DISJOINT_DST) O(DISJOINT_OVER) O(DISJOINT_OVER_REVERSE) O(DISJOINT_IN) O(DISJOINT_IN_REVERSE)
    O(DISJOINT_OUT) O(DISJOINT_OUT_REVERSE) O(DISJOINT_ATOP) O(DISJOINT_ATOP_REVERSE) O(DISJOINT_XOR)
    O(CONJOINT_CLEAR) O(CONJOINT_SRC) O(CONJOINT_DST) O(CONJOINT_OVER) O(CONJOINT_OVER_REVERSE) O(CONJOINT_IN) O(CONJOINT_IN_REVERSE)
    O(CONJOINT_OUT) O(CONJOINT_OUT_REVERSE) O(CONJOINT_ATOP) O(CONJOINT_ATOP_REVERSE) O(CONJOINT_XOR)
    O(MULTIPLY) O(SCREEN) O(OVERLAY) O(DARKEN) O(LIGHTEN) O(COLOR_DODGE) O(COLOR_BURN) O(HARD_LIGHT) O(SOFT_LIGHT) O(DIFFERENCE) O(EXCLUSION)
    O(HSL_HUE) O(HSL_SATURATION) O(HSL_COLOR) O(HSL_LUMINOSITY)
#undef O
    }
    return "?";
}

static const int rc_all_ops[] = {
    PIXMAN_OP_CLEAR, PIXMAN_OP_SRC, PIXMAN_OP_DST, PIXMAN_OP_OVER, PIXMAN_OP_OVER_REVERSE, PIXMAN_OP_IN, PIXMAN_OP_IN_REVERSE, PIXMAN_OP_OUT,
    PIXMAN_OP_OUT_REVERSE, PIXMAN_OP_ATOP, PIXMAN_OP_ATOP_REVERSE, PIXMAN_OP_XOR, PIXMAN_OP_ADD, PIXMAN_OP_SATURATE,
    PIXMAN_OP_DISJOINT_CLEAR, PIXMAN_OP_DISJOINT_SRC, PIXMAN_OP_DISJOINT_DST, PIXMAN_OP_DISJOINT_OVER, PIXMAN_OP_DISJOINT_OVER_REVERSE,
    PIXMAN_OP_DISJOINT_IN, PIXMAN_OP_DISJOINT_IN_REVERSE, PIXMAN_OP_DISJOINT_OUT, PIXMAN_OP_DISJOINT_OUT_REVERSE, PIXMAN_OP_DISJOINT_ATOP,
    PIXMAN_OP_DISJOINT_ATOP_REVERSE, PIXMAN_OP_DISJOINT_XOR,
    PIXMAN_OP_CONJOINT_CLEAR, PIXMAN_OP_CONJOINT_SRC, PIXMAN_OP_CONJOINT_DST, PIXMAN_OP_CONJOINT_OVER, PIXMAN_OP_CONJOINT_OVER_REVERSE,
    PIXMAN_OP_CONJOINT_IN, PIXMAN_OP_CONJOINT_IN_REVERSE, PIXMAN_OP_CONJOINT_OUT, PIXMAN_OP_CONJOINT_OUT_REVERSE, PIXMAN_OP_CONJOINT_ATOP,
    PIXMAN_OP_CONJOINT_ATOP_REVERSE, PIXMAN_OP_CONJOINT_XOR,
    PIXMAN_OP_MULTIPLY, PIXMAN_OP_SCREEN, PIXMAN_OP_OVERLAY, PIXMAN_OP_DARKEN, PIXMAN_OP_LIGHTEN, PIXMAN_OP_COLOR_DODGE, PIXMAN_OP_COLOR_BURN,
    PIXMAN_OP_HARD_LIGHT, PIXMAN_OP_SOFT_LIGHT, PIXMAN_OP_DIFFERENCE, PIXMAN_OP_EXCLUSION,
    PIXMAN_OP_HSL_HUE, PIXMAN_OP_HSL_SATURATION, PIXMAN_OP_HSL_COLOR, PIXMAN_OP_HSL_LUMINOSITY };
#define RC_NOPS 53

#endif
