#!/usr/bin/env python3
"""Regenerates /verif/MANIFEST.json from the table below (keeps it schema-valid)."""
import json, os, subprocess
V = os.path.dirname(os.path.dirname(os.path.abspath(__file__)))

ALL = ["C%02d" % i for i in range(1, 21)]

# id -> (category, engine, technique, text, note, design_ref)
CLAIMED = {
 "C05": ("model_checking", "E2", "explicit-state exhaustive enumeration of region states (all point sets of small grid universes x constructions x operations x aliasing) against a bitmask set model",
         "Every pair of point sets of the 3x3/4x2/2x4 (thorough: 4x3, 3x4) grid universes at small, negative and limit coordinates, in both the 16- and 32-bit instantiation, built by five different construction histories, is pushed through union/intersect/subtract in five aliasing patterns; every single set through inverse/union_rect/intersect_rect/reset over every grid box, copy, clear, 16<->32 conversion; all init_rects lists up to length 3 (4) over 39 boxes; all operation sequences of depth 3 over three region variables. The point set held by the library after each call is compared with bitmask set algebra and the call must report success.",
         "Trusts the reference canonicaliser (cross-checked two ways at start-up); says nothing about regions with more rectangles or other coordinates than the universes contain, or sequences longer than 3.", "3 C05/C06/C07"),
 "C06": ("model_checking", "E2", "explicit-state exhaustive enumeration of region states; canonical-form oracle (unique y-x banded list) and equal() == set equality on every pair x construction pair",
         "Same state space as C05, but the oracle is the exact canonical rectangle list, tight extents, inline storage of single rectangles, selfcheck(), and equal(A,B) == (A and B hold the same points) for every pair of sets and every pair of constructions (including five differently produced empty regions). Translations that clamp at the coordinate limits are included.",
         "As C05. One recorded finding (clamping translate leaves mergeable bands un-merged) is matched by a narrow classifier and printed as KNOWN-FINDING.", "3 C05/C06/C07"),
 "C07": ("model_checking", "E2", "explicit-state exhaustive enumeration: every region of the universes x every grid point/box query x every translation; every a1 bitmap of small shapes",
         "For every point set of the universes (16/32-bit, five constructions): contains_point at every grid line and its predecessor in both axes (membership and the returned member box), contains_rectangle for every grid box against subset/disjoint/overlap, not_empty/n_rects/extents, translate by 30-odd deltas including ones that push part or all of the region across either coordinate limit (model: shift in 64-bit, clip, re-canonicalise); init_from_image for all 2^(w*h) bitmaps of shapes up to 16 (18) bits and wide bitmaps with free bits at word-boundary columns, with padding bits set.",
         "As C05; bitmaps wider than 97 pixels or taller than the listed shapes are not explored.", "3 C05/C06/C07"),
}

CLAIMED.update({
 "C01": ("exploration", "E1", "bounded-exhaustive enumeration of pixel-value tuples (full 2^24..2^32 cubes / boundary alphabets) through pixman_image_composite32, compared with an independent model of the Render/PDF equations",
         "Every tuple of (source colour, source alpha, mask, destination colour, destination alpha) from the stated alphabets is a pixel of a strip composited by the real library under the default chain and the general-only chain. The 13 Porter-Duff operators and ADD (no mask, unified, component alpha, a8 mask) are compared bit-exactly with 'round each product to nearest 1/255, saturate sums'; the 40 other operators with a long-double transcription of the Render disjoint/conjoint and PDF blend equations within one destination step (integer-evaluated separable blend modes: 2 steps unmasked, 3 masked; blend modes judged on valid premultiplied inputs only). Format triples (17 formats in each role, incl. 565, 4444, 2-bit, 10-bit, float) check widening by bit replication, truncating narrowing and the float pipeline.",
         "Trusts ref/ref_combine.h as a transcription of the specifications; HSL with component alpha is executed but not judged; values outside the alphabets in the quick tier; x86-64 back ends only.", "3 C01"),
 "C02": ("exploration", "E1", "differential bounded-exhaustive enumeration: every request under every PIXMAN_DISABLE configuration, byte-compared with the general path; dispatch coverage measured through link-time wrappers",
         "Each (operator, source kind, mask kind, destination format) combination - and, for those the library's own tables route to a fast path, the full loop-geometry alphabet (every width 1..19/31..33/63..65/127..130 x destination alignment 0..7 x source offsets x strides x a two-rectangle clip) - plus transformed sources (12 transforms x 4 filters x 4 repeats) and blt/fill is executed under 12 (quick) or all 32 (thorough) configurations of {fast, mmx, sse2, ssse3, wholeops}; the entire destination buffer must equal the portable general path (undefined x-channel bits excluded). Wrappers around lookup_composite / iter_init / lookup_combiner record which table entry handled each request: 569 of 574 fast-path and iterator table entries are reached (the other five are unreachable by construction), and a cache-vs-table cross-check runs on every lookup.",
         "x86-64 back ends only; images up to 160x4; two pixel patterns; the general path itself is C01's subject.", "3 C02"),
 "C03": ("exploration", "E1", "bounded-exhaustive enumeration of request rectangles x clips x source-clip options x alpha maps x formats against a boolean-grid model of the intersection, every destination bit checked",
         "For two destination sizes, six formats (32/16/24/8/4/1 bpp) with padded strides and guard words, six destination clips, four alpha-map placements, 7-15 source options and 8-16 mask options (clip shape x clip_sources x client_clip x offset), all 840 request rectangles (negative, overhanging, zero and 2^30 extents) are composited twice with complementary fill/source so that every covered pixel flips all its bits; every bit of the buffer, padding, guard words and the alpha-map buffer is compared with the model region, and pixman_compute_composite_region's rectangle list and boolean with the model. fill_boxes/fill_rectangles, glyph and trapezoid entry points are checked for writes outside bounds and clip.",
         "Clip regions on alpha-map images are outside the alphabet (not named by the statement); coordinates within int32 arithmetic.", "3 C03"),
 "C13": ("exploration", "E1", "bounded-exhaustive enumeration of stop lists x geometries x repeats x transforms through both pipelines, compared with a long-double reference within one 8-bit step; ASan for the safety half",
         "Every combination of 1-4-stop lists (non-decreasing positions from {0,1/4,1/2,1/2,3/4,1}, four colours incl. translucent) x linear/radial/conical geometries incl. degenerate ones x 4 repeat modes x up to 8 affine/projective transforms x 2 origins is drawn with OP_SRC into a8r8g8b8 and rgba_float under AddressSanitizer and each pixel compared with an independent reference (geometric t, repeat folding, stop search, non-premultiplied interpolation, premultiply) within one 8-bit step, set-valued only within 2^-15 of a discontinuity. Safety spaces feed unsorted/out-of-range stops, coincident points, zero/identical circles and singular or overflowing transforms and demand no crash, hang or ASan report. Far-origin spaces repeat the colour claim thousands of periods from the origin.",
         "Two gradient-walker defects far from the origin are recorded as known findings; masks, other operators, >4 stops, non-dyadic transforms are not covered.", "3 C13"),
 "C15": ("fault_enumeration", "E3", "deviation-bounded exhaustive fault enumeration: link-time wrapped allocator fails the k-th call / all calls from k / all pairs, for every allocation call of 78-81 API scenarios",
         "The real library (clang ASan) is linked with --wrap on malloc/calloc/realloc/free. For 78 scenarios (81 thorough: constructors, setters, region operations sized to hit each pixman_rect_alloc branch, composites needing heap scanline buffers, alpha maps, fills, trapezoids, glyphs, filter creation) the allocation calls made inside the API calls are numbered, then every schedule 'only call k fails', 'everything from k on fails', all pairs (thorough: single+persistent, triples) is executed. Each case checks: no crash/ASan report, live blocks back to the starting count, constructors NULL / booleans FALSE or the fault-free result, failed regions are the broken region that propagates and accepts clear/fini/re-init, each destination pixel is old or fault-free, objects remain usable. Evidence lists the 50 allocation sites reached and the 3 never reached.",
         "Five genuine defects are recorded as known findings (narrow classifiers); allocation inside the library constructor before main is not reachable.", "3 C15"),
 "C17": ("model_checking", "E2", "explicit-state breadth-first search to a fixpoint over canonical glyph-cache states on the real code (white-box), map+LRU+freeze reference model on every transition; exhaustive differential enumeration for glyph drawing",
         "pixman-glyph.c is compiled into the harness twice under the PIXMAN_VERIF size hook (4 slots/5 keys, 8 slots/6 keys chosen from the real hash() to collide and wrap). BFS to a fixpoint (small: 9,702 states; medium: 986,988 states / 18.7 M transitions in thorough, depth-capped in quick) over canonical states (slot contents, MRU order, freeze count); each transition is rebuilt by replay and compared with a map + LRU list + freeze-count model: lookups, immutable entry content, refusal when full, LRU-first eviction only above the high-water mark, counter/slot/MRU consistency; every call runs under a watchdog. The drawing half compares composite_glyphs_no_mask with per-glyph composite32 and composite_glyphs with a hand-accumulated ADD mask, bit-exact over 0-3 glyphs, formats, positions, clips, 6 operators.",
         "Duplicate keys, insert while not frozen, tables larger than 8 slots are outside the alphabet.", "3 C17"),
 "C20": ("model_checking", "E2", "explicit-state breadth-first search to a fixpoint over image-ownership states on the real code under ASan, ownership reference model on every transition",
         "Pool of two bits images (one library-allocated), a gradient and a glyph cache; alphabet ref/unref, set_alpha_map (incl. self and NULL), transform/filter/clip/destroy-function setters, glyph insert/remove, drawing. BFS to a fixpoint (45,900 states quick; 630,260 states / 24 M transitions thorough); every transition is replayed on a fresh pool and judged by an ownership model: unref return value, destroy callback exactly once, cascade to alpha maps, refusal of chains; finally all references are released and the heap level must return to baseline. AddressSanitizer catches use-after-free and double free.",
         "At most 2 client references per image and 2 (4) non-default properties at a time; allocation failure is C15's subject.", "3 C20"),
})

NA_REASON = "check not built yet in this round (planned in DESIGN.md section 3); not claimed until its check exists and has run clean end-to-end"

def main():
    reg = {}
    checks = []
    for pid in sorted(CLAIMED):
        cat, eng, tech, text, note, ref = CLAIMED[pid]
        checks.append({
            "property_id": pid,
            "quick_cmd": "./run check %s --tier quick" % pid,
            "thorough_cmd": "./run check %s --tier thorough" % pid,
            "evidence_file": "/verif/evidence/%s.json" % pid,
            "replay_cmd_template": "./run replay {path}",
            "engine": eng,
            "level_claimed": {"category": cat, "text": text, "design_ref": "DESIGN.md section " + ref},
            "level_note": note,
            "technique": tech,
        })
    commits = subprocess.run(["git", "-C", "/repo", "log", "--format=%h %s", "--grep=^hook:", "fb3286c..HEAD"],
                             stdout=subprocess.PIPE, text=True).stdout.strip().splitlines()
    m = {
        "version": 1,
        "setup_cmd": "./run setup",
        "hooks": {
            "guard": "PIXMAN_VERIF",
            "enable": "engine/build.py compiles /repo/pixman/*.c from the working tree into static archives with -DPIXMAN_VERIF (plus per-check -DPIXMAN_VERIF_GLYPH_* sizes for C17)",
            "baseline_off_cmd": "meson test -C /repo/_build",
            "source_commits": [c.split()[0] for c in commits],
            "add_only": True,
        },
        "engines": [
            {"name": "E1", "path": "engine/vf.h", "serves_properties": ["C01", "C02", "C03", "C04", "C08", "C09", "C10", "C11", "C12", "C13", "C18", "C19"],
             "kind_free_text": "bounded-exhaustive input enumeration (odometer over explicit alphabets, 16 worker processes) against a reference model or a differential oracle, on the real library"},
            {"name": "E2", "path": "engine/vf.h", "serves_properties": ["C05", "C06", "C07", "C14", "C17", "C20"],
             "kind_free_text": "explicit-state exploration of operation histories on the real library: depth-1-from-everywhere over a finite universe plus depth-k-from-init / BFS with canonical-state hashing"},
            {"name": "E3", "path": "engine/vf.h", "serves_properties": ["C15", "C16"],
             "kind_free_text": "deviation-bounded environment exploration: allocation-fault schedules; preemption-bounded thread schedules under a serialising scheduler"},
        ],
        "checks": checks,
        "not_applicable": [{"property_id": p, "reason": NA_REASON} for p in ALL if p not in CLAIMED],
        "notes": "All checks explore the real library built from /repo's working tree; see DESIGN.md. known_findings.json lists recorded (open) and repaired (fixed) defects.",
    }
    json.dump(m, open(os.path.join(V, "MANIFEST.json"), "w"), indent=1)
    print("MANIFEST.json: %d checks, %d not_applicable" % (len(checks), len(m["not_applicable"])))

main()
