#!/usr/bin/env python3
"""Regenerates /verif/MANIFEST.json from the table below (keeps it schema-valid)."""
import json, os, subprocess
V = os.path.dirname(os.path.dirname(os.path.abspath(__file__)))

ALL = ["C%02d" % i for i in range(1, 21)]

# id -> (category, engine, technique, text, note, design_ref)
CLAIMED = {
 "C05": ("model_checking", "E2", "explicit-state exhaustive enumeration of region states (all point sets of small grid universes x constructions x operations x aliasing) against a bitmask set model",
         "Every pair of point sets of the 3x3/4x2/2x4 (thorough: 4x3, 3x4) grid universes at small, negative and limit coordinates, in both the 16- and 32-bit instantiation, built by five different construction histories, is pushed through union/intersect/subtract in five aliasing patterns; every single set through inverse/union_rect/intersect_rect/reset over every grid box, copy, clear, 16<->32 conversion; all init_rects lists up to length 3 (4) over 39 boxes; all operation sequences of depth 3 over three region variables. The point set held by the library after each call is compared with bitmask set algebra and the call must report success.",
         "Trusts the reference canonicaliser (cross-checked two ways at start-up); says nothing about regions with more rectangles or other coordinates than the universes contain, or sequences longer than 3.", "3 C05/C06/C07"),
 "C06": ("model_checking", "E2", "explicit-state exhaustive enumeration of region states; canonical-form oracle (unique y-x banded list) and equal() == set equality on every pair x construction pair",
         "Same state space as C05, but the oracle is the exact canonical rectangle list, tight extents, inline storage of single rectangles, selfcheck(), and equal(A,B) == (A and B hold the same points) for every pair of sets and every pair of constructions (including five differently produced empty regions). Translations that clamp at the coordinate limits are included.",
         "As C05. One recorded finding (clamping translate leaves mergeable bands un-merged) is matched by a narrow classifier and printed as KNOWN-FINDING.", "3 C05/C06/C07"),
 "C07": ("model_checking", "E2", "explicit-state exhaustive enumeration: every region of the universes x every grid point/box query x every translation; every a1 bitmap of small shapes",
         "For every point set of the universes (16/32-bit, five constructions): contains_point at every grid line and its predecessor in both axes (membership and the returned member box), contains_rectangle for every grid box against subset/disjoint/overlap, not_empty/n_rects/extents, translate by 30-odd deltas including ones that push part or all of the region across either coordinate limit (model: shift in 64-bit, clip, re-canonicalise); init_from_image for all 2^(w*h) bitmaps of shapes up to 16 (18) bits and wide bitmaps with free bits at word-boundary columns, with padding bits set.",
         "As C05; bitmaps wider than 97 pixels or taller than the listed shapes are not explored.", "3 C05/C06/C07"),
}

NA_REASON = "check not built yet in this round (planned in DESIGN.md section 3); not claimed until its check exists and has run clean end-to-end"

def main():
    reg = {}
    checks = []
    for pid in sorted(CLAIMED):
        cat, eng, tech, text, note, ref = CLAIMED[pid]
        checks.append({
            "property_id": pid,
            "quick_cmd": "./run check %s --tier quick" % pid,
            "thorough_cmd": "./run check %s --tier thorough" % pid,
            "evidence_file": "/verif/evidence/%s.json" % pid,
            "replay_cmd_template": "./run replay {path}",
            "engine": eng,
            "level_claimed": {"category": cat, "text": text, "design_ref": "DESIGN.md section " + ref},
            "level_note": note,
            "technique": tech,
        })
    commits = subprocess.run(["git", "-C", "/repo", "log", "--format=%h %s", "--grep=^hook:", "fb3286c..HEAD"],
                             stdout=subprocess.PIPE, text=True).stdout.strip().splitlines()
    m = {
        "version": 1,
        "setup_cmd": "./run setup",
        "hooks": {
            "guard": "PIXMAN_VERIF",
            "enable": "engine/build.py compiles /repo/pixman/*.c from the working tree into static archives with -DPIXMAN_VERIF (plus per-check -DPIXMAN_VERIF_GLYPH_* sizes for C17)",
            "baseline_off_cmd": "meson test -C /repo/_build",
            "source_commits": [c.split()[0] for c in commits],
            "add_only": True,
        },
        "engines": [
            {"name": "E1", "path": "engine/vf.h", "serves_properties": ["C01", "C02", "C03", "C04", "C08", "C09", "C10", "C11", "C12", "C13", "C18", "C19"],
             "kind_free_text": "bounded-exhaustive input enumeration (odometer over explicit alphabets, 16 worker processes) against a reference model or a differential oracle, on the real library"},
            {"name": "E2", "path": "engine/vf.h", "serves_properties": ["C05", "C06", "C07", "C14", "C17", "C20"],
             "kind_free_text": "explicit-state exploration of operation histories on the real library: depth-1-from-everywhere over a finite universe plus depth-k-from-init / BFS with canonical-state hashing"},
            {"name": "E3", "path": "engine/vf.h", "serves_properties": ["C15", "C16"],
             "kind_free_text": "deviation-bounded environment exploration: allocation-fault schedules; preemption-bounded thread schedules under a serialising scheduler"},
        ],
        "checks": checks,
        "not_applicable": [{"property_id": p, "reason": NA_REASON} for p in ALL if p not in CLAIMED],
        "notes": "All checks explore the real library built from /repo's working tree; see DESIGN.md. known_findings.json lists recorded (open) and repaired (fixed) defects.",
    }
    json.dump(m, open(os.path.join(V, "MANIFEST.json"), "w"), indent=1)
    print("MANIFEST.json: %d checks, %d not_applicable" % (len(checks), len(m["not_applicable"])))

main()
