#!/bin/bash
# usage: tools/runall.sh [quick|thorough] [ids...]  — runs checks one after the other, prints one line each
tier=${1:-quick}; shift
ids=${@:-$(cd /verif && ./run list | awk '{print $1}')}
for c in $ids; do
  s=$(date +%s)
  out=$(cd /verif && ./run check $c --tier $tier 2>&1); rc=$?
  e=$(date +%s)
  echo "$c rc=$rc $((e-s))s $(echo "$out" | grep -a '^SUMMARY' | sed 's/SUMMARY C[0-9]* //' | cut -c1-170) viol=$(echo "$out" | grep -ac '^VIOLATION') known=$(echo "$out" | grep -ac '^KNOWN-FINDING')"
done
