#!/bin/bash
# usage: tools/verify_seed.sh <id> [name]   — confirms a seeded change in its scratch worktree /tmp/seed/<id>:
#   builds, runs the library's own test suite (must pass), demo must FAIL with the change and PASS without it.
R=${SEEDROOT:-/tmp/seed}; id=$1; name=${2:-$1}; W=$R/$id
cd $W || exit 2
git checkout -q -- pixman 2>/dev/null; git apply seed_demo/patch.diff || { echo "$id: patch does not apply"; exit 2; }
ninja -C _build >/dev/null 2>&1 || { echo "$id: build failed"; exit 2; }
t=$(meson test -C _build 2>&1 | grep -E "^(Ok|Fail):" | tr -s ' ' | tr '\n' ' ')
(cd seed_demo && bash ./build_and_run.sh >$R/$id.demo_with.log 2>&1); rc_with=$?
git checkout -q -- pixman; ninja -C _build >/dev/null 2>&1
(cd seed_demo && bash ./build_and_run.sh >$R/$id.demo_without.log 2>&1); rc_without=$?
echo "$id: tests[$t] demo_with_change_rc=$rc_with demo_without_change_rc=$rc_without"
mkdir -p /verif/seeded/$name
cp seed_demo/patch.diff seed_demo/demo.c seed_demo/build_and_run.sh seed_demo/NOTES.md /verif/seeded/$name/ 2>/dev/null
echo "$t|$rc_with|$rc_without" > /verif/seeded/$name/.verify
