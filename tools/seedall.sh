#!/bin/bash
# Regression test of the checks themselves: applies every seeded change (to a scratch copy of the sources) and runs the
# check of the property it breaks; prints one line per seed.  Every seed except C13 (see its meta.json) must give rc=1.
cd /verif
for d in seeded/*/; do
  id=$(basename $d); prop=${id%%-*}
  extra=""
  [ "$id" = "C02-2" ] && extra="C08"
  [ "$id" = "C03-2" ] && extra="C14"
  out=$(tools/seedtest.sh $d/patch.diff $prop $extra 2>&1 | grep -a " rc=" | sed 's/ SUMMARY.*//' | tr '\n' ';')
  echo "$id: $out"
done
