#!/bin/bash
# usage: tools/seedtest.sh <patch.diff> <check ids...>
# Applies the patch to a scratch copy of /repo's pixman sources and runs the named checks (quick tier) against it.
# (Equivalent to applying it in /repo, but does not disturb other runs; the scratch copy is removed afterwards.)
set -u
patch=$(readlink -f "$1"); shift
tag=$(basename $(dirname $(dirname "$patch")))_$$
S=/tmp/seedrun/$tag
rm -rf $S; mkdir -p $S/repo
cp -r /repo/pixman /repo/meson.build $S/repo/
(cd $S/repo && git init -q . 2>/dev/null; patch -p1 -s < "$patch") || { echo "PATCH FAILED"; rm -rf $S; exit 2; }
tier=${SEED_TIER:-quick}
for c in "$@"; do
  s=$(date +%s)
  out=$(cd /verif && VERIF_REPO=$S/repo VERIF_BUILD=$S/build ./run check $c --tier $tier --evidence $S/ev_$c.json 2>&1); rc=$?
  e=$(date +%s)
  echo "$c rc=$rc $((e-s))s viol=$(echo "$out" | grep -ac '^VIOLATION') keys=[$(echo "$out" | grep -a '^  key=' | sed 's/^  key=\([^ ]*\).*/\1/' | sort | uniq -c | tr '\n' ' ')] $(echo "$out" | grep -a '^SUMMARY' | cut -c1-120)"
  echo "$out" | grep -a -A2 '^VIOLATION' | head -4 | cut -c1-400
done
rm -rf $S
